#!/bin/bash
# run.sh <check> [tier]: builds the worker (from /repo's working tree, verif tag) and the
# driver, then runs the check. Exit status is the check's.
set -u
export GOFLAGS=-mod=mod GOPROXY=off GOSUMDB=off GOTOOLCHAIN=local
cd /verif/harness || exit 2
cp /repo/go.sum go.sum 2>/dev/null
mkdir -p /verif/bin /verif/evidence /verif/replay /verif/logs
build() {
  go build -tags verif -o /verif/bin/gw ./cmd/gw || return 1
  go build -tags verif -o /verif/bin/vcheck ./cmd/vcheck || return 1
  if [ "${1:-}" = "C18" ]; then
    (cd /repo && go build -o /verif/bin/grits .) || return 1
  fi
  if [ "${1:-}" = "C13" ]; then
    go build -race -tags verif -o /verif/bin/gw-race ./cmd/gw || return 1
  fi
}
if ! build "$@" 2>/verif/logs/build.err; then
  cat /verif/logs/build.err >&2
  echo "BUILD-FAILED: /repo (with tag verif) or the harness does not build" >&2
  exit 2
fi
exec /verif/bin/vcheck "$@"
