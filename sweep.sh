#!/bin/bash
# sweep.sh <tier> <seed>...: runs every check at the given seeds; prints one line per run.
tier=${1:-quick}; shift
seeds=${@:-1}
for s in $seeds; do
  for p in C01 C02 C03 C04 C05 C06 C07 C08 C09 C10 C11 C12 C13 C14 C15 C16 C17 C18 C19; do
    out=$(VERIF_SEED=$s /verif/run.sh $p $tier 2>&1); rc=$?
    echo "seed=$s $p rc=$rc $(echo "$out" | grep -E "^$p " | tail -1)"
    if [ $rc -ne 0 ]; then echo "$out" | grep -E "^(VIOLATION|  signature|INCONCLUSIVE|HARNESS|BUILD)" | head -8; fi
  done
done
