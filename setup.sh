#!/bin/bash
# Builds the harness binaries once (warms the Go build cache). Offline.
export GOFLAGS=-mod=mod GOPROXY=off GOSUMDB=off GOTOOLCHAIN=local
cd /verif/harness || exit 2
cp /repo/go.sum go.sum
mkdir -p /verif/bin /verif/evidence /verif/replay /verif/logs
go build -tags verif -o /verif/bin/gw ./cmd/gw || exit 2
go build -tags verif -o /verif/bin/vcheck ./cmd/vcheck || exit 2
go build -race -tags verif -o /verif/bin/gw-race ./cmd/gw || exit 2
echo setup ok
