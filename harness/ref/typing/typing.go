// Package typing is R1: an independent implementation of the adjoint semi-axiomatic
// session typing rules, restricted to Grits' documented syntax (axiomatic or call cut
// bodies, optional explicit self, binder freshness). It answers accept, reject with a
// reason from a fixed vocabulary, or unknown for shapes outside the fragment it is
// willing to judge. It shares no code with Grits.
package typing

import (
	"fmt"
	"strings"

	. "verif/ast"
)

type VKind int

const (
	Accept VKind = iota
	Reject
	Unknown
)

type Verdict struct {
	Kind   VKind
	Reason string // reason code (Reject / Unknown)
	Where  string
}

func (v Verdict) String() string {
	switch v.Kind {
	case Accept:
		return "accept"
	case Reject:
		return "reject(" + v.Reason + ") at " + v.Where
	}
	return "unknown(" + v.Reason + ") at " + v.Where
}

// Reason families used to attribute disagreements to properties.
func Substructural(reason string) bool {
	switch reason {
	case "linear-unused", "used-twice", "shadow", "drop-not-weakenable", "split-not-contractable", "multi-name-linear":
		return true
	}
	return false
}
func ModeReason(reason string) bool {
	return strings.HasPrefix(reason, "independence@") || reason == "shift-illegal" || reason == "shift-mode"
}
func TypeFormation(reason string) bool { return strings.HasPrefix(reason, "illformed-type") }

type rej struct {
	unknown bool
	reason  string
	where   string
}

func (r *rej) verdict() Verdict {
	if r.unknown {
		return Verdict{Unknown, r.reason, r.where}
	}
	return Verdict{Reject, r.reason, r.where}
}

type checker struct {
	p   *Program
	env Env
	fns map[string]*Func
	// Options: model of repairs that may or may not be present in the tree under test.
}

func no(reason, where string, a ...interface{}) *rej {
	return &rej{reason: reason, where: fmt.Sprintf(where, a...)}
}
func unk(reason, where string, a ...interface{}) *rej {
	return &rej{unknown: true, reason: reason, where: fmt.Sprintf(where, a...)}
}

// ctx is the typing context; names consumed earlier on the current path are remembered so
// that a second use is reported as such (Grits just finds the name missing).
type ctx struct {
	m    map[string]*Ty
	gone map[string]bool
}

func newCtx() ctx { return ctx{m: map[string]*Ty{}, gone: map[string]bool{}} }

func (c ctx) copy() ctx {
	d := newCtx()
	for k, v := range c.m {
		d.m[k] = v
	}
	for k := range c.gone {
		d.gone[k] = true
	}
	return d
}
func (c ctx) has(n string) bool { _, ok := c.m[n]; return ok }
func (c ctx) set(n string, t *Ty) {
	c.m[n] = t
	delete(c.gone, n)
}

// Check judges a whole program.
func Check(p *Program) Verdict {
	c := &checker{p: p, env: Env{}, fns: map[string]*Func{}}
	if r := c.program(); r != nil {
		return r.verdict()
	}
	return Verdict{Kind: Accept}
}

func (c *checker) program() *rej {
	p := c.p
	// 1. type definitions
	for _, td := range p.Types {
		if _, dup := c.env[td.Name]; dup {
			return no("illformed-type:duplicate-definition", "type %s", td.Name)
		}
		c.env[td.Name] = td.T
	}
	if r := WellFormedDefs(p.Types, c.env); r != "" {
		return no("illformed-type:"+r, "type definitions")
	}
	// 2. function definitions
	for _, f := range p.Funcs {
		if _, dup := c.fns[f.Name]; dup {
			return no("duplicate-function", "function %s", f.Name)
		}
		c.fns[f.Name] = f
	}
	for _, f := range p.Funcs {
		seen := map[string]bool{}
		for _, v := range f.Params {
			if seen[v.N] {
				return no("duplicate-parameter", "function %s", f.Name)
			}
			seen[v.N] = true
			if v.N == "self" {
				return unk("self-as-parameter", "function %s", f.Name)
			}
		}
		if r := WellFormedType(f.Ret, c.env); r != "" {
			return no("illformed-type:"+r, "function %s result", f.Name)
		}
		for _, v := range f.Params {
			if r := WellFormedType(v.T, c.env); r != "" {
				return no("illformed-type:"+r, "function %s parameter %s", f.Name, v.N)
			}
		}
		for _, v := range f.Params {
			if !Geq(v.T.M, f.Ret.M) {
				return no("independence@fun", "function %s parameter %s", f.Name, v.N)
			}
		}
	}
	// 3. process declarations
	owner := map[string]int{}
	for i, pr := range p.Procs {
		seen := map[string]bool{}
		for _, n := range pr.Names {
			if seen[n] {
				return no("duplicate-provider", "process %d", i)
			}
			seen[n] = true
			if _, dup := owner[n]; dup {
				return no("duplicate-provider", "process %d name %s", i, n)
			}
			owner[n] = i
		}
	}
	for i, pr := range p.Procs {
		if r := WellFormedType(pr.T, c.env); r != "" {
			return no("illformed-type:"+r, "process %d type", i)
		}
	}
	execTy := map[string]*Ty{} // exec<i>, the name of the process made by the i-th exec declaration
	for i, e := range p.Execs {
		f := c.fns[e]
		if f == nil || len(f.Params) != 0 {
			return unk("exec-of-unknown-function", "exec %s", e)
		}
		execTy[fmt.Sprintf("exec%d", i+1)] = f.Ret
	}
	used := map[string]bool{}
	for i, pr := range p.Procs {
		if len(pr.Names) > 1 {
			// Grits refuses at parse time a multi-name process that mentions its own names
			for _, v := range FreeVars(pr.Body) {
				for _, n := range pr.Names {
					if v == n {
						return unk("multi-name-self-reference", "process %d", i)
					}
				}
			}
		}
		for _, v := range FreeVars(pr.Body) {
			own := false
			for _, n := range pr.Names {
				if n == v {
					own = true
				}
			}
			if own {
				continue
			}
			if _, ok := owner[v]; !ok && execTy[v] == nil {
				return no("unbound", "process %d uses %s", i, v)
			}
			if used[v] {
				return no("used-twice", "top-level name %s", v)
			}
			used[v] = true
		}
	}
	// 4. bodies of functions
	for _, f := range p.Funcs {
		g := newCtx()
		for _, v := range f.Params {
			g.set(v.N, v.T)
		}
		body := f.Body
		if f.Prov != "" {
			body = SubstSelf(CloneTerm(f.Body), f.Prov)
			for _, v := range f.Params {
				if v.N == f.Prov {
					return unk("provider-named-like-parameter", "function %s", f.Name)
				}
			}
		}
		if r := c.check(g, "", f.Ret, body); r != nil {
			r.where = "function " + f.Name + ": " + r.where
			return r
		}
	}
	// 5. bodies of processes
	for i, pr := range p.Procs {
		g := newCtx()
		for _, v := range FreeVars(pr.Body) {
			if j, ok := owner[v]; ok {
				own := false
				for _, n := range pr.Names {
					if n == v {
						own = true
					}
				}
				if !own {
					g.set(v, p.Procs[j].T)
				}
			} else if t := execTy[v]; t != nil {
				g.set(v, t)
			}
		}
		if len(pr.Names) > 1 && !pr.T.M.Contract() {
			return no("multi-name-linear", "process %d", i)
		}
		for v, t := range g.m {
			if !Geq(t.M, pr.T.M) {
				return no("independence@top", "process %d uses %s", i, v)
			}
		}
		if r := c.check(g, "", pr.T, pr.Body); r != nil {
			r.where = fmt.Sprintf("process %v: %s", pr.Names, r.where)
			return r
		}
	}
	for _, e := range p.Execs {
		_ = e // exec f() runs f's body, already checked, as a closed process
	}
	return nil
}

// SubstSelf replaces free occurrences of name w by self, respecting binders, exactly as a
// function with an explicit provider name is read.
func SubstSelf(t *Term, w string) *Term {
	if t == nil {
		return nil
	}
	sub := func(n string) string {
		if Base(n) == w {
			return n[:len(n)-len(w)] + "self"
		}
		return n
	}
	switch t.Op {
	case "send":
		t.X, t.Y, t.Z = sub(t.X), sub(t.Y), sub(t.Z)
	case "recv", "split":
		t.X = sub(t.X)
		if Base(t.Y) != w && Base(t.Z) != w {
			SubstSelf(t.Cont, w)
		}
	case "sel", "cast":
		t.X, t.Y = sub(t.X), sub(t.Y)
	case "case":
		t.X = sub(t.X)
		for _, b := range t.Brs {
			if Base(b.Var) != w {
				SubstSelf(b.Body, w)
			}
		}
	case "new":
		SubstSelf(t.Body, w)
		if Base(t.Y) != w {
			SubstSelf(t.Cont, w)
		}
	case "call":
		for i := range t.Args {
			t.Args[i] = sub(t.Args[i])
		}
	case "close":
		t.X = sub(t.X)
	case "fwd":
		t.X, t.Y = sub(t.X), sub(t.Y)
	case "wait", "drop":
		t.X = sub(t.X)
		SubstSelf(t.Cont, w)
	case "shift":
		t.X = sub(t.X)
		if Base(t.Y) != w {
			SubstSelf(t.Cont, w)
		}
	case "print":
		SubstSelf(t.Cont, w)
	}
	return t
}

func isProv(n, alias string) bool {
	b := Base(n)
	return b == "self" || (alias != "" && b == alias)
}

func (c *checker) take(g ctx, n string, at string) (*Ty, *rej) {
	b := Base(n)
	if b == "self" {
		return nil, no("misuse-self", "%s: self used as a client", at)
	}
	t, ok := g.m[b]
	if !ok {
		if g.gone[b] {
			return nil, no("used-twice", "%s: %s was already consumed", at, b)
		}
		return nil, no("unbound", "%s: %s is not available", at, b)
	}
	delete(g.m, b)
	g.gone[b] = true
	return t, nil
}

func (c *checker) empty(g ctx, at string) *rej {
	if len(g.m) > 0 {
		var ns []string
		for k := range g.m {
			ns = append(ns, k)
		}
		return no("linear-unused", "%s: left over %v", at, ns)
	}
	return nil
}

// pol checks an explicit polarity annotation against the type Grits assigns to that
// occurrence.
func (c *checker) pol(n string, t *Ty, at string) *rej {
	p := Pol(n)
	if p == 0 || t == nil {
		return nil
	}
	pos := Positive(t, c.env)
	if (p > 0) != pos {
		return no("polarity", "%s: wrong explicit polarity on %s", at, n)
	}
	return nil
}

func (c *checker) eq(a, b *Ty) bool { return Equal(a, b, c.env) }

func (c *checker) unf(t *Ty) *Ty { return Unfold(t, c.env) }

func firstRej(rs ...*rej) *rej {
	for _, r := range rs {
		if r != nil {
			return r
		}
	}
	return nil
}

func selfish(alias string, ns ...string) bool {
	for _, n := range ns {
		if isProv(n, alias) {
			return true
		}
	}
	return false
}

// check: g |- t :: (self : A), alias = the bound name that also denotes the provider.
func (c *checker) check(g ctx, alias string, A *Ty, t *Term) *rej {
	U := c.unf(A)
	if U == nil {
		return unk("provider-type-unresolvable", "%s", t.Op)
	}
	at := t.Op
	switch t.Op {
	case "print":
		return c.check(g, alias, A, t.Cont)

	case "send":
		switch {
		case isProv(t.X, alias):
			if U.K != KSend {
				return no("type-mismatch", "send on self at type %s", U.K)
			}
			ty, r := c.take(g, t.Y, at)
			if r != nil {
				return twice(r, t.Y, t.Z)
			}
			tz, r := c.take(g, t.Z, at)
			if r != nil {
				return twice(r, t.Y, t.Z)
			}
			if !c.eq(U.L, ty) || !c.eq(U.R, tz) {
				return no("type-mismatch", "send self payload/continuation types")
			}
			if r := firstRej(c.pol(t.X, U, at), c.pol(t.Y, ty, at), c.pol(t.Z, tz, at)); r != nil {
				return r
			}
			return c.empty(g, at)
		case isProv(t.Z, alias):
			tx, r := c.take(g, t.X, at)
			if r != nil {
				return r
			}
			V := c.unf(tx)
			if V.K != KRecv {
				return no("type-mismatch", "send to %s of type %s", t.X, V.K)
			}
			ty, r := c.take(g, t.Y, at)
			if r != nil {
				return twice(r, t.X, t.Y)
			}
			if !c.eq(V.L, ty) || !c.eq(V.R, A) {
				return no("type-mismatch", "send client payload/continuation types")
			}
			if r := firstRej(c.pol(t.X, V, at), c.pol(t.Y, ty, at), c.pol(t.Z, A, at)); r != nil {
				return r
			}
			return c.empty(g, at)
		}
		return no("misuse-self", "send without self")

	case "recv":
		switch {
		case isProv(t.X, alias):
			if U.K != KRecv {
				return no("type-mismatch", "recv on self at type %s", U.K)
			}
			if selfish("", t.Y) {
				return no("shadow", "recv on self binds its payload to self: the received channel is lost")
			}
			y, z := Base(t.Y), Base(t.Z)
			if selfish("", t.Z) {
				// the provider goes on under the name self: nothing is bound, nothing is lost
				if g.has(y) {
					return no("shadow", "recv binder %s", y)
				}
				if r := firstRej(c.pol(t.X, U, at), c.pol(t.Y, U.L, at)); r != nil {
					return r
				}
				g.set(y, U.L)
				return c.check(g, "", U.R, t.Cont)
			}
			if g.has(y) {
				return no("shadow", "recv binder %s", y)
			}
			if g.has(z) {
				return no("shadow", "recv binder %s", z)
			}
			if y == z {
				return no("shadow", "recv binders equal")
			}
			if r := firstRej(c.pol(t.X, U, at), c.pol(t.Y, U.L, at), c.pol(t.Z, U.R, at)); r != nil {
				return r
			}
			g.set(y, U.L)
			return c.check(g, z, U.R, t.Cont)
		case selfish(alias, t.Y, t.Z):
			if selfish("", t.Y, t.Z) {
				return no("misuse-self", "recv binds self")
			}
			return no("shadow", "recv binds the name the provider goes by")
		default:
			tx, r := c.take(g, t.X, at)
			if r != nil {
				return r
			}
			V := c.unf(tx)
			if V.K != KSend {
				return no("type-mismatch", "recv from %s of type %s", t.X, V.K)
			}
			y, z := Base(t.Y), Base(t.Z)
			if g.has(y) {
				return no("shadow", "recv binder %s", y)
			}
			if g.has(z) {
				return no("shadow", "recv binder %s", z)
			}
			if y == z {
				return no("shadow", "recv binders equal")
			}
			if r := firstRej(c.pol(t.X, V, at), c.pol(t.Y, V.L, at), c.pol(t.Z, V.R, at)); r != nil {
				return r
			}
			g.set(y, V.L)
			g.set(z, V.R)
			return c.check(g, alias, A, t.Cont)
		}

	case "sel":
		switch {
		case isProv(t.X, alias):
			if U.K != KPlus {
				return no("type-mismatch", "select on self at type %s", U.K)
			}
			bt := U.Lookup(t.Lbl)
			if bt == nil {
				return no("label", "select %s on self", t.Lbl)
			}
			ty, r := c.take(g, t.Y, at)
			if r != nil {
				return r
			}
			if !c.eq(bt, ty) {
				return no("type-mismatch", "select continuation type")
			}
			if r := firstRej(c.pol(t.X, U, at), c.pol(t.Y, bt, at)); r != nil {
				return r
			}
			return c.empty(g, at)
		case isProv(t.Y, alias):
			tx, r := c.take(g, t.X, at)
			if r != nil {
				return r
			}
			V := c.unf(tx)
			if V.K != KWith {
				return no("type-mismatch", "select on %s of type %s", t.X, V.K)
			}
			bt := V.Lookup(t.Lbl)
			if bt == nil {
				return no("label", "select %s on %s", t.Lbl, t.X)
			}
			if !c.eq(bt, A) {
				return no("type-mismatch", "select continuation (self) type")
			}
			if r := firstRej(c.pol(t.X, V, at), c.pol(t.Y, bt, at)); r != nil {
				return r
			}
			return c.empty(g, at)
		}
		return no("misuse-self", "select without self")

	case "case":
		var T *Ty
		right := isProv(t.X, alias)
		if right {
			if U.K != KWith {
				return no("type-mismatch", "case self at type %s", U.K)
			}
			T = U
		} else {
			tx, r := c.take(g, t.X, at)
			if r != nil {
				return r
			}
			T = c.unf(tx)
			if T.K != KPlus {
				return no("type-mismatch", "case %s of type %s", t.X, T.K)
			}
		}
		seen := map[string]bool{}
		for _, b := range t.Brs {
			if seen[b.Lbl] {
				return no("label", "duplicate branch %s", b.Lbl)
			}
			seen[b.Lbl] = true
			bt := T.Lookup(b.Lbl)
			if bt == nil {
				return no("label", "branch %s not in type", b.Lbl)
			}
			if selfish("", b.Var) {
				if !right {
					return no("shadow", "case binds self: the bound channel is lost")
				}
				// case on self: the provider goes on under the name self
				if r := c.check(g.copy(), "", bt, b.Body); r != nil {
					return r
				}
				continue
			}
			v := Base(b.Var)
			if r := c.pol(b.Var, bt, at); r != nil {
				return r
			}
			g2 := g.copy()
			var r *rej
			if right {
				if g2.has(v) {
					return no("shadow", "case on self: binder %s is a name still in scope", v)
				}
				r = c.check(g2, v, bt, b.Body)
			} else {
				if v == alias && alias != "" {
					return no("shadow", "case binds the name the provider goes by")
				}
				if g2.has(v) {
					return no("shadow", "case binder %s", v)
				}
				g2.set(v, bt)
				r = c.check(g2, alias, A, b.Body)
			}
			if r != nil {
				return r
			}
		}
		if len(seen) != len(T.Br) {
			return no("label", "case does not cover all labels")
		}
		return c.pol(t.X, T, at)

	case "new":
		y := Base(t.Y)
		if selfish("", t.Y) {
			return no("shadow", "new binds self: the bound channel is lost")
		}
		if y == alias && alias != "" {
			return no("shadow", "cut binds the name the provider goes by")
		}
		reused := g.has(y)
		inBody := false
		for _, v := range FreeVars(t.Body) {
			if v == y {
				inBody = true
			}
		}
		if !reused && inBody {
			return no("cut-self-reference", "new %s", y)
		}
		if reused && !inBody {
			return no("shadow", "new binder %s re-assigned before use", y)
		}
		if HasCont(t.Body) {
			return no("cut-body-form", "new %s", y)
		}
		if t.Body.Op == "call" {
			f := c.fns[t.Body.Fn]
			gl := newCtx()
			for _, a := range t.Body.Args {
				if IsSelf(a) {
					continue
				}
				ta, r := c.take(g, a, at)
				if r != nil {
					return dupArg(r, a, t.Body.Args)
				}
				gl.set(Base(a), ta)
			}
			if f == nil {
				return no("undefined-function", "%s", t.Body.Fn)
			}
			T := f.Ret
			if t.Ann != nil && !c.eq(t.Ann, T) {
				return unk("cut-annotation-ignored", "new %s", y)
			}
			for v, tv := range gl.m {
				if !Geq(tv.M, T.M) {
					return no("independence@cut", "new %s: %s weaker than spawned provider", y, v)
				}
			}
			if r := c.check(gl, y, T, t.Body); r != nil {
				return r
			}
			if !Geq(T.M, A.M) {
				return no("independence@cut", "new %s weaker than its client", y)
			}
			if r := c.pol(t.Y, T, at); r != nil {
				return r
			}
			g.set(y, T)
			return c.check(g, alias, A, t.Cont)
		}
		if reused {
			return unk("cut-reuse-axiom-body", "new %s", y)
		}
		gl := newCtx()
		for _, v := range bodyNames(t.Body) {
			tv, r := c.take(g, v, at)
			if r != nil {
				return r
			}
			gl.set(Base(v), tv)
		}
		if t.Ann == nil {
			return no("cut-missing-annotation", "new %s", y)
		}
		if r := WellFormedType(t.Ann, c.env); r != "" {
			return no("illformed-type:"+r, "annotation of %s", y)
		}
		T := t.Ann
		for v, tv := range gl.m {
			if !Geq(tv.M, T.M) {
				return no("independence@cut", "new %s: %s weaker than spawned provider", y, v)
			}
		}
		if !Geq(T.M, A.M) {
			return no("independence@cut", "new %s weaker than its client", y)
		}
		if r := c.check(gl, "", T, t.Body); r != nil {
			return r
		}
		if r := c.pol(t.Y, T, at); r != nil {
			return r
		}
		g.set(y, T)
		return c.check(g, alias, A, t.Cont)

	case "call":
		f := c.fns[t.Fn]
		if f == nil {
			return no("undefined-function", "%s", t.Fn)
		}
		args := t.Args
		switch len(args) {
		case len(f.Params) + 1:
			if !isProv(args[0], alias) {
				return no("arity", "call %s: first argument is not self", t.Fn)
			}
			args = args[1:]
		case len(f.Params):
		default:
			return no("arity", "call %s", t.Fn)
		}
		if !c.eq(A, f.Ret) {
			return no("type-mismatch", "call %s: provider type", t.Fn)
		}
		for i, a := range args {
			ta, r := c.take(g, a, at)
			if r != nil {
				return dupArg(r, a, args)
			}
			if !c.eq(ta, f.Params[i].T) {
				return no("type-mismatch", "call %s: argument %d", t.Fn, i)
			}
			if r := c.pol(a, ta, at); r != nil {
				return r
			}
		}
		return c.empty(g, at)

	case "close":
		if !isProv(t.X, alias) {
			return no("misuse-self", "close of a client")
		}
		if U.K != KUnit {
			return no("type-mismatch", "close at type %s", U.K)
		}
		if r := c.pol(t.X, U, at); r != nil {
			return r
		}
		return c.empty(g, at)

	case "wait":
		if isProv(t.X, alias) {
			return no("misuse-self", "wait on self")
		}
		tx, r := c.take(g, t.X, at)
		if r != nil {
			return r
		}
		V := c.unf(tx)
		if V.K != KUnit {
			return no("type-mismatch", "wait on type %s", V.K)
		}
		if r := c.pol(t.X, V, at); r != nil {
			return r
		}
		return c.check(g, alias, A, t.Cont)

	case "fwd":
		if isProv(t.Y, alias) {
			return no("misuse-self", "forwarding from self")
		}
		if !isProv(t.X, alias) {
			return no("misuse-self", "forwarding to a client")
		}
		ty, r := c.take(g, t.Y, at)
		if r != nil {
			return r
		}
		if !c.eq(A, ty) {
			return no("type-mismatch", "forward between different types")
		}
		if r := firstRej(c.pol(t.X, A, at), c.pol(t.Y, ty, at)); r != nil {
			return r
		}
		return c.empty(g, at)

	case "drop":
		if isProv(t.X, alias) {
			return no("misuse-self", "drop of self")
		}
		tx, r := c.take(g, t.X, at)
		if r != nil {
			return r
		}
		if !tx.M.Weaken() {
			return no("drop-not-weakenable", "drop %s at mode %s", t.X, tx.M)
		}
		if r := c.pol(t.X, tx, at); r != nil {
			return r
		}
		return c.check(g, alias, A, t.Cont)

	case "split":
		if isProv(t.X, alias) {
			return no("misuse-self", "split of self")
		}
		tx, r := c.take(g, t.X, at)
		if r != nil {
			return r
		}
		if selfish("", t.Y, t.Z) {
			return no("shadow", "split binds self: the bound channel is lost")
		}
		if selfish(alias, t.Y, t.Z) {
			return no("shadow", "split binds the name the provider goes by")
		}
		y, z := Base(t.Y), Base(t.Z)
		if g.has(y) {
			return no("shadow", "split binder %s", y)
		}
		if g.has(z) {
			return no("shadow", "split binder %s", z)
		}
		if y == z {
			return no("shadow", "split binders equal")
		}
		if !tx.M.Contract() {
			return no("split-not-contractable", "split %s at mode %s", t.X, tx.M)
		}
		if r := firstRej(c.pol(t.X, tx, at), c.pol(t.Y, tx, at), c.pol(t.Z, tx, at)); r != nil {
			return r
		}
		g.set(y, tx)
		g.set(z, tx)
		return c.check(g, alias, A, t.Cont)

	case "cast":
		switch {
		case isProv(t.X, alias):
			if U.K != KDown {
				return no("type-mismatch", "cast self at type %s", U.K)
			}
			ty, r := c.take(g, t.Y, at)
			if r != nil {
				return r
			}
			if ty.M != U.From {
				return no("shift-mode", "cast self: continuation mode")
			}
			if !c.eq(U.L, ty) {
				return no("type-mismatch", "cast self: continuation type")
			}
			if r := firstRej(c.pol(t.X, U, at), c.pol(t.Y, ty, at)); r != nil {
				return r
			}
			return c.empty(g, at)
		case isProv(t.Y, alias):
			tx, r := c.take(g, t.X, at)
			if r != nil {
				return r
			}
			V := c.unf(tx)
			if V.K != KUp {
				return no("type-mismatch", "cast to %s of type %s", t.X, V.K)
			}
			if A.M != V.From {
				return no("shift-mode", "cast client: self mode")
			}
			if !c.eq(V.L, A) {
				return no("type-mismatch", "cast client: self type")
			}
			if r := firstRej(c.pol(t.X, V, at), c.pol(t.Y, A, at)); r != nil {
				return r
			}
			return c.empty(g, at)
		}
		return no("misuse-self", "cast without self")

	case "shift":
		switch {
		case isProv(t.X, alias):
			if U.K != KUp {
				return no("type-mismatch", "shift self at type %s", U.K)
			}
			if selfish("", t.Y) {
				// shift on self: the provider goes on under the name self
				if r := c.pol(t.X, U, at); r != nil {
					return r
				}
				return c.check(g, "", U.L, t.Cont)
			}
			y := Base(t.Y)
			if g.has(y) {
				return no("shadow", "shift binder %s", y)
			}
			if r := firstRej(c.pol(t.X, U, at), c.pol(t.Y, U.L, at)); r != nil {
				return r
			}
			return c.check(g, y, U.L, t.Cont)
		case isProv(t.Y, alias):
			if selfish("", t.Y) {
				return no("misuse-self", "shift binds self")
			}
			return no("shadow", "shift binds the name the provider goes by")
		default:
			tx, r := c.take(g, t.X, at)
			if r != nil {
				return r
			}
			V := c.unf(tx)
			if V.K != KDown {
				return no("type-mismatch", "shift from %s of type %s", t.X, V.K)
			}
			y := Base(t.Y)
			if g.has(y) {
				return no("shadow", "shift binder %s", y)
			}
			if r := firstRej(c.pol(t.X, V, at), c.pol(t.Y, V.L, at)); r != nil {
				return r
			}
			g.set(y, V.L)
			return c.check(g, alias, A, t.Cont)
		}
	}
	return unk("unknown-form", "%s", t.Op)
}

// twice turns "unbound" into "used-twice" when the missing name was consumed just before by
// the same form.
func twice(r *rej, a, b string) *rej {
	if r.reason == "unbound" && Base(a) == Base(b) {
		return no("used-twice", "%s", r.where)
	}
	return r
}

func dupArg(r *rej, a string, args []string) *rej {
	if r.reason != "unbound" {
		return r
	}
	n := 0
	for _, x := range args {
		if Base(x) == Base(a) {
			n++
		}
	}
	if n > 1 {
		return no("used-twice", "%s", r.where)
	}
	return r
}

// bodyNames: the non-self names an axiomatic cut body mentions, in order, with repeats.
func bodyNames(t *Term) []string {
	var out []string
	add := func(ns ...string) {
		for _, n := range ns {
			if n != "" && !IsSelf(n) {
				out = append(out, n)
			}
		}
	}
	switch t.Op {
	case "send":
		add(t.X, t.Y, t.Z)
	case "sel", "cast", "fwd":
		add(t.X, t.Y)
	case "close":
		add(t.X)
	}
	return out
}
