package typing

import (
	. "verif/ast"
)

// defMode: the mode of a definition = the mode at the head of its body (following pure
// aliases).
func defMode(name string, env Env) (Mode, bool) {
	t := env[name]
	for i := 0; t != nil && t.K == KName; i++ {
		if i > len(env) {
			return NoMode, false
		}
		t = env[t.Name]
	}
	if t == nil {
		return NoMode, false
	}
	return t.M, true
}

// WellFormedDefs checks a set of definitions: definedness, distinct labels,
// contractivity, uniform modes up to shifts, legal shifts. "" = well formed.
func WellFormedDefs(defs []TypeDef, env Env) string {
	for _, d := range defs {
		if r := labelsAndNames(d.T, env); r != "" {
			return r
		}
	}
	for _, d := range defs {
		// contractive: following pure name references must reach a structural type
		seen := map[string]bool{d.Name: true}
		t := d.T
		for t.K == KName {
			if seen[t.Name] {
				return "non-contractive"
			}
			seen[t.Name] = true
			t = env[t.Name]
		}
	}
	for _, d := range defs {
		m, ok := defMode(d.Name, env)
		if !ok {
			return "non-contractive"
		}
		if r := modes(d.T, m, env); r != "" {
			return r
		}
	}
	return ""
}

// WellFormedType checks a type used in a signature / annotation against the definitions.
func WellFormedType(t *Ty, env Env) string {
	if t == nil {
		return "missing"
	}
	if r := labelsAndNames(t, env); r != "" {
		return r
	}
	return modes(t, t.M, env)
}

func labelsAndNames(t *Ty, env Env) string {
	switch t.K {
	case KUnit:
		return ""
	case KName:
		if _, ok := env[t.Name]; !ok {
			return "undefined-name"
		}
		return ""
	case KSend, KRecv:
		if r := labelsAndNames(t.L, env); r != "" {
			return r
		}
		return labelsAndNames(t.R, env)
	case KPlus, KWith:
		seen := map[string]bool{}
		for _, b := range t.Br {
			if seen[b.L] {
				return "duplicate-label"
			}
			seen[b.L] = true
			if r := labelsAndNames(b.T, env); r != "" {
				return r
			}
		}
		return ""
	default:
		return labelsAndNames(t.L, env)
	}
}

func modes(t *Ty, m Mode, env Env) string {
	if t.M < Rep || t.M > Lin {
		return "invalid-mode"
	}
	if t.M != m {
		return "mode-not-uniform"
	}
	switch t.K {
	case KUnit:
		return ""
	case KName:
		dm, ok := defMode(t.Name, env)
		if !ok {
			return "non-contractive"
		}
		if dm != t.M {
			return "mode-not-uniform"
		}
		return ""
	case KSend, KRecv:
		if r := modes(t.L, m, env); r != "" {
			return r
		}
		return modes(t.R, m, env)
	case KPlus, KWith:
		for _, b := range t.Br {
			if r := modes(b.T, m, env); r != "" {
				return r
			}
		}
		return ""
	case KUp:
		if t.From < Rep || t.From > Lin {
			return "invalid-mode"
		}
		if !Geq(t.M, t.From) {
			return "shift-illegal"
		}
		return modes(t.L, t.From, env)
	case KDown:
		if t.From < Rep || t.From > Lin {
			return "invalid-mode"
		}
		if !Geq(t.From, t.M) {
			return "shift-illegal"
		}
		return modes(t.L, t.From, env)
	}
	return "?"
}
