// Package rtypes is R3: regular-tree algorithms over *surface* type definitions (optional
// head annotation, shifts with explicit modes): well-formedness, directional mode
// inference, and construction of fully moded trees (ast.Ty) on which bisimilarity is
// decided by ast.Equal. It also contains G2, the generator of definition environments.
// Everything here is written from the statements of C08/C10/C16, not from Grits' code.
package rtypes

import (
	"fmt"
	"strings"

	. "verif/ast"
)

// SNode is a surface type: no modes except on shifts (as written, any spelling).
type SNode struct {
	K        Kind
	L, R     *SNode
	Br       []SBranch
	From, To string // shifts: mode spellings as written
	Name     string
}

type SBranch struct {
	L string
	T *SNode
}

type SDef struct {
	Name string
	Ann  string // head annotation as written ("" = none)
	Body *SNode
}

func (n *SNode) text() string {
	switch n.K {
	case KUnit:
		return "1"
	case KName:
		return n.Name
	case KSend:
		return sparen(n.L) + " * " + sparen(n.R)
	case KRecv:
		return sparen(n.L) + " -* " + sparen(n.R)
	case KPlus, KWith:
		var b []string
		for _, br := range n.Br {
			b = append(b, br.L+" : "+br.T.text())
		}
		op := "+{"
		if n.K == KWith {
			op = "&{"
		}
		return op + strings.Join(b, ", ") + "}"
	case KUp:
		return n.From + " /\\ " + n.To + " " + sparen(n.L)
	case KDown:
		return n.From + " \\/ " + n.To + " " + sparen(n.L)
	}
	return "?"
}

func sparen(n *SNode) string {
	switch n.K {
	case KSend, KRecv, KUp, KDown:
		return "(" + n.text() + ")"
	}
	return n.text()
}

func (d SDef) Text() string {
	if d.Ann != "" {
		return fmt.Sprintf("type %s = %s %s\n", d.Name, d.Ann, d.Body.text())
	}
	return fmt.Sprintf("type %s = %s\n", d.Name, d.Body.text())
}

func DefsText(defs []SDef) string {
	var b strings.Builder
	for _, d := range defs {
		b.WriteString(d.Text())
	}
	return b.String()
}

// ParseMode: the twelve documented spellings (Grits lower-cases its input first).
func ParseMode(s string) (Mode, bool) {
	switch strings.ToLower(s) {
	case "r", "rep", "replicable":
		return Rep, true
	case "m", "mul", "multicast":
		return Mul, true
	case "a", "aff", "affine":
		return Aff, true
	case "l", "lin", "linear":
		return Lin, true
	}
	return NoMode, false
}

type Analysis struct {
	WF     bool
	Reason string          // first reason for ill-formedness
	Modes  map[string]Mode // mode of every definition (when inference is possible)
	Trees  Env             // fully moded bodies (only meaningful when WF)
	Steps  map[string]int  // number of unfolding steps to reach a structural type
}

// Analyze decides well-formedness of a set of definitions and infers every mode.
func Analyze(defs []SDef) *Analysis {
	a := &Analysis{Modes: map[string]Mode{}, Trees: Env{}, Steps: map[string]int{}}
	fail := func(r string) *Analysis {
		if a.Reason == "" {
			a.Reason = r
		}
		return a
	}
	byName := map[string]*SDef{}
	for i := range defs {
		if _, dup := byName[defs[i].Name]; dup {
			return fail("duplicate-definition")
		}
		byName[defs[i].Name] = &defs[i]
	}
	// names defined, labels distinct, modes spelled correctly
	var scan func(n *SNode) string
	scan = func(n *SNode) string {
		switch n.K {
		case KName:
			if byName[n.Name] == nil {
				return "undefined-name"
			}
		case KSend, KRecv:
			if r := scan(n.L); r != "" {
				return r
			}
			return scan(n.R)
		case KPlus, KWith:
			seen := map[string]bool{}
			for _, b := range n.Br {
				if seen[b.L] {
					return "duplicate-label"
				}
				seen[b.L] = true
				if r := scan(b.T); r != "" {
					return r
				}
			}
		case KUp, KDown:
			return scan(n.L)
		}
		return ""
	}
	for _, d := range defs {
		if r := scan(d.Body); r != "" {
			return fail(r)
		}
	}
	// contractive: chains of pure name references end in a structural type
	for _, d := range defs {
		seen := map[string]bool{d.Name: true}
		n := d.Body
		steps := 1
		for n.K == KName {
			if seen[n.Name] {
				return fail("non-contractive")
			}
			seen[n.Name] = true
			n = byName[n.Name].Body
			steps++
		}
		a.Steps[d.Name] = steps
	}
	var badMode func(n *SNode) bool
	badMode = func(n *SNode) bool {
		switch n.K {
		case KSend, KRecv:
			return badMode(n.L) || badMode(n.R)
		case KPlus, KWith:
			for _, b := range n.Br {
				if badMode(b.T) {
					return true
				}
			}
		case KUp, KDown:
			if _, ok := ParseMode(n.From); !ok {
				return true
			}
			if _, ok := ParseMode(n.To); !ok {
				return true
			}
			return badMode(n.L)
		}
		return false
	}
	// an explicit head annotation governs the type up to the next shift: directly on a shift it
	// must agree with the shift's target mode (an unknown spelling never does)
	for _, d := range defs {
		if d.Ann != "" && (d.Body.K == KUp || d.Body.K == KDown) {
			am, okA := ParseMode(d.Ann)
			tm, okT := ParseMode(d.Body.To)
			if !okA || (okT && am != tm) {
				return fail("head-annotation-contradicts-shift")
			}
		}
	}
	for _, d := range defs {
		if d.Ann != "" {
			if _, ok := ParseMode(d.Ann); !ok {
				return fail("invalid-mode")
			}
		}
		if badMode(d.Body) {
			return fail("invalid-mode")
		}
	}
	// directional inference: least fixpoint
	det := map[string]Mode{}
	for _, d := range defs {
		if d.Ann != "" {
			det[d.Name], _ = ParseMode(d.Ann)
		}
	}
	var first func(n *SNode) (Mode, bool)
	first = func(n *SNode) (Mode, bool) {
		switch n.K {
		case KName:
			m, ok := det[n.Name]
			return m, ok
		case KSend, KRecv:
			if m, ok := first(n.L); ok {
				return m, true
			}
			return first(n.R)
		case KPlus, KWith:
			for _, b := range n.Br {
				if m, ok := first(b.T); ok {
					return m, true
				}
			}
		case KUp, KDown:
			m, _ := ParseMode(n.To)
			return m, true
		}
		return NoMode, false
	}
	for changed := true; changed; {
		changed = false
		for _, d := range defs {
			if _, ok := det[d.Name]; ok {
				continue
			}
			if m, ok := first(d.Body); ok {
				det[d.Name] = m
				changed = true
			}
		}
	}
	for _, d := range defs {
		if _, ok := det[d.Name]; !ok {
			det[d.Name] = Rep
		}
		a.Modes[d.Name] = det[d.Name]
	}
	// build the moded trees and check uniformity / shift legality
	reason := ""
	var build func(n *SNode, m Mode) *Ty
	build = func(n *SNode, m Mode) *Ty {
		switch n.K {
		case KUnit:
			return Unit(m)
		case KName:
			if det[n.Name] != m && reason == "" {
				reason = "mode-not-uniform"
			}
			return Named(n.Name, det[n.Name])
		case KSend:
			return Send(m, build(n.L, m), build(n.R, m))
		case KRecv:
			return Recv(m, build(n.L, m), build(n.R, m))
		case KPlus, KWith:
			t := &Ty{K: n.K, M: m}
			for _, b := range n.Br {
				t.Br = append(t.Br, Branch{L: b.L, T: build(b.T, m)})
			}
			return t
		case KUp, KDown:
			from, _ := ParseMode(n.From)
			to, _ := ParseMode(n.To)
			if to != m && reason == "" {
				reason = "mode-not-uniform"
			}
			if n.K == KUp && !Geq(to, from) && reason == "" {
				reason = "shift-illegal"
			}
			if n.K == KDown && !Geq(from, to) && reason == "" {
				reason = "shift-illegal"
			}
			return &Ty{K: n.K, M: to, From: from, L: build(n.L, from)}
		}
		return nil
	}
	for _, d := range defs {
		a.Trees[d.Name] = build(d.Body, det[d.Name])
	}
	if reason != "" {
		return fail(reason)
	}
	a.WF = true
	return a
}

// Sub follows a path ("l", "r", branch index, "c") in a moded tree.
func Sub(t *Ty, path string) *Ty {
	if path == "" {
		return t
	}
	for _, step := range strings.Split(path, ".") {
		if t == nil || step == "" {
			continue
		}
		switch t.K {
		case KSend, KRecv:
			if step == "l" {
				t = t.L
			} else {
				t = t.R
			}
		case KPlus, KWith:
			i := 0
			fmt.Sscanf(step, "%d", &i)
			if i >= len(t.Br) {
				return nil
			}
			t = t.Br[i].T
		case KUp, KDown:
			t = t.L
		default:
			return nil
		}
	}
	return t
}

// Paths lists the paths of all sub-terms of a surface node (for queries).
func Paths(n *SNode, prefix string, out *[]string, max int) {
	if len(*out) >= max {
		return
	}
	*out = append(*out, prefix)
	j := func(s string) string {
		if prefix == "" {
			return s
		}
		return prefix + "." + s
	}
	switch n.K {
	case KSend, KRecv:
		Paths(n.L, j("l"), out, max)
		Paths(n.R, j("r"), out, max)
	case KPlus, KWith:
		for i, b := range n.Br {
			Paths(b.T, j(fmt.Sprint(i)), out, max)
		}
	case KUp, KDown:
		Paths(n.L, j("c"), out, max)
	}
}

// Text prints the surface type.
func (n *SNode) Text() string { return n.text() }
