package rtypes

import (
	"strings"
	"fmt"
	"math/rand"

	. "verif/ast"
)

// G2: random definition environments. A consistent moded graph is built first, then
// annotations are (partly) erased and, with some probability, one defect is injected. R3
// decides what the verdict on the result should be; G2 itself promises nothing.

var spell = map[Mode][]string{
	Rep: {"rep", "r", "replicable"},
	Mul: {"mul", "m", "multicast"},
	Aff: {"aff", "a", "affine"},
	Lin: {"lin", "l", "linear"},
}

type g2 struct {
	r     *rand.Rand
	modes []Mode // true mode of def i
	names []string
	small bool // many definitions: keep the bodies small
}

func (g *g2) sp(m Mode) string {
	s := spell[m]
	if g.r.Intn(4) == 0 {
		return s[g.r.Intn(len(s))]
	}
	return s[0]
}

func (g *g2) refs(m Mode) []int {
	var out []int
	for i, k := range g.modes {
		if k == m {
			out = append(out, i)
		}
	}
	return out
}

func (g *g2) node(m Mode, d int, self int) *SNode {
	if d <= 0 {
		if rs := g.refs(m); len(rs) > 0 && g.r.Intn(2) == 0 {
			return &SNode{K: KName, Name: g.names[rs[g.r.Intn(len(rs))]]}
		}
		return &SNode{K: KUnit}
	}
	switch g.r.Intn(10) {
	case 0:
		return &SNode{K: KUnit}
	case 1, 2:
		if rs := g.refs(m); len(rs) > 0 {
			return &SNode{K: KName, Name: g.names[rs[g.r.Intn(len(rs))]]}
		}
		return &SNode{K: KUnit}
	case 3:
		return &SNode{K: KSend, L: g.node(m, d-1, self), R: g.node(m, d-1, self)}
	case 4:
		return &SNode{K: KRecv, L: g.node(m, d-1, self), R: g.node(m, d-1, self)}
	case 5, 6:
		k := KPlus
		if g.r.Intn(2) == 0 {
			k = KWith
		}
		n := &SNode{K: k}
		nb := 1 + g.r.Intn(3)
		if g.r.Intn(14) == 0 {
			nb = 9 + g.r.Intn(32) // a wide choice
		}
		for i := 0; i < nb; i++ {
			n.Br = append(n.Br, SBranch{L: fmt.Sprintf("l%d", i), T: g.node(m, d-1, self)})
		}
		return n
	case 7:
		// up-shift from a weaker mode
		var ks []Mode
		for _, k := range AllModes {
			if Geq(m, k) {
				ks = append(ks, k)
			}
		}
		k := ks[g.r.Intn(len(ks))]
		return &SNode{K: KUp, From: g.sp(k), To: g.sp(m), L: g.node(k, d-1, self)}
	case 8:
		var ks []Mode
		for _, k := range AllModes {
			if Geq(k, m) {
				ks = append(ks, k)
			}
		}
		k := ks[g.r.Intn(len(ks))]
		return &SNode{K: KDown, From: g.sp(k), To: g.sp(m), L: g.node(k, d-1, self)}
	default:
		return &SNode{K: KSend, L: &SNode{K: KSend, L: g.node(m, d-2, self), R: &SNode{K: KUnit}}, R: g.node(m, d-1, self)}
	}
}

func hasDetermining(n *SNode) bool {
	switch n.K {
	case KName, KUp, KDown:
		return true
	case KSend, KRecv:
		return hasDetermining(n.L) || hasDetermining(n.R)
	case KPlus, KWith:
		for _, b := range n.Br {
			if hasDetermining(b.T) {
				return true
			}
		}
	}
	return false
}

func collect(n *SNode, f func(*SNode)) {
	if n == nil {
		return
	}
	f(n)
	collect(n.L, f)
	collect(n.R, f)
	for _, b := range n.Br {
		collect(b.T, f)
	}
}

func cloneS(n *SNode) *SNode {
	if n == nil {
		return nil
	}
	c := *n
	c.L, c.R = cloneS(n.L), cloneS(n.R)
	if n.Br != nil {
		c.Br = make([]SBranch, len(n.Br))
		for i, b := range n.Br {
			c.Br[i] = SBranch{b.L, cloneS(b.T)}
		}
	}
	return &c
}

// GenDefs returns a definition set and a description of the injected defect ("" = none).
func GenDefs(r *rand.Rand, defectPct int) ([]SDef, string) {
	g := &g2{r: r}
	n := 2 + r.Intn(6)
	if r.Intn(12) == 0 {
		n = 66 + r.Intn(40) // many definitions
		g.small = true
	}
	uniform := r.Intn(3) == 0
	base := AllModes[r.Intn(4)]
	for i := 0; i < n; i++ {
		m := base
		if !uniform {
			m = AllModes[r.Intn(4)]
		}
		g.modes = append(g.modes, m)
		g.names = append(g.names, fmt.Sprintf("T%d", i))
	}
	var defs []SDef
	for i := 0; i < n; i++ {
		var body *SNode
		if i > 0 && r.Intn(8) == 0 {
			// alias of an earlier definition of the same mode
			var c []int
			for j := 0; j < i; j++ {
				if g.modes[j] == g.modes[i] {
					c = append(c, j)
				}
			}
			if len(c) > 0 {
				body = &SNode{K: KName, Name: g.names[c[r.Intn(len(c))]]}
			}
		}
		if body == nil {
			depth := 1 + r.Intn(3)
			if g.small {
				depth = 1
			}
			body = g.node(g.modes[i], depth, i)
			for body.K == KName {
				body = g.node(g.modes[i], 2, i)
			}
		}
		d := SDef{Name: g.names[i], Body: body}
		annotate := r.Intn(2) == 0
		if !annotate && g.modes[i] != Rep && !hasDetermining(body) && r.Intn(5) != 0 {
			annotate = true
		}
		if body.K == KUp || body.K == KDown {
			annotate = false
		}
		if annotate {
			d.Ann = g.sp(g.modes[i])
		}
		defs = append(defs, d)
	}
	defect := ""
	if r.Intn(100) < defectPct {
		defect = g.inject(&defs)
	}
	r.Shuffle(len(defs), func(i, j int) { defs[i], defs[j] = defs[j], defs[i] })
	return defs, defect
}

func (g *g2) inject(defs *[]SDef) string {
	r := g.r
	ds := *defs
	i := r.Intn(len(ds))
	for try := 0; try < 10; try++ {
		switch r.Intn(12) {
		case 0:
			var cs []*SNode
			collect(ds[i].Body, func(n *SNode) {
				if (n.K == KPlus || n.K == KWith) && len(n.Br) >= 2 {
					cs = append(cs, n)
				}
			})
			if len(cs) == 0 {
				i = r.Intn(len(ds))
				continue
			}
			c := cs[r.Intn(len(cs))]
			c.Br[len(c.Br)-1].L = c.Br[0].L
			return "duplicate-label"
		case 1:
			var cs []*SNode
			collect(ds[i].Body, func(n *SNode) {
				if n.K == KName || n.K == KUnit {
					cs = append(cs, n)
				}
			})
			c := cs[r.Intn(len(cs))]
			c.K, c.Name = KName, "Undefined"
			return "undefined-name"
		case 2:
			// alias cycle of length 1..5 through fresh names, entered from def i
			k := 1 + r.Intn(5)
			first := fmt.Sprintf("Cyc%d", 0)
			for j := 0; j < k; j++ {
				next := fmt.Sprintf("Cyc%d", (j+1)%k)
				*defs = append(*defs, SDef{Name: fmt.Sprintf("Cyc%d", j), Body: &SNode{K: KName, Name: next}})
			}
			ds = *defs
			var cs []*SNode
			collect(ds[i].Body, func(n *SNode) {
				if n.K == KUnit {
					cs = append(cs, n)
				}
			})
			if len(cs) > 0 {
				c := cs[r.Intn(len(cs))]
				c.K, c.Name = KName, first
			}
			// half of the time a tail of 1..3 pure aliases leads into the cycle without being
			// part of it (declared before or after its members: the order is shuffled later)
			if r.Intn(2) == 0 {
				t := 1 + r.Intn(3)
				for j := 0; j < t; j++ {
					next := fmt.Sprintf("Tl%d", j+1)
					if j == t-1 {
						next = fmt.Sprintf("Cyc%d", r.Intn(k))
					}
					*defs = append(*defs, SDef{Name: fmt.Sprintf("Tl%d", j), Body: &SNode{K: KName, Name: next}})
				}
			}
			return fmt.Sprintf("alias-cycle-%d", k)
		case 3:
			ds[i].Ann = []string{"linn", "x", "shared", "lim", "u"}[r.Intn(5)]
			return "invalid-head-mode"
		case 4:
			var cs []*SNode
			collect(ds[i].Body, func(n *SNode) {
				if n.K == KUp || n.K == KDown {
					cs = append(cs, n)
				}
			})
			if len(cs) == 0 {
				i = r.Intn(len(ds))
				continue
			}
			c := cs[r.Intn(len(cs))]
			switch r.Intn(3) {
			case 0:
				c.From, c.To = c.To, c.From
				return "shift-swapped"
			case 1:
				c.From = "weird"
				return "invalid-shift-mode"
			default:
				if c.K == KUp {
					c.K = KDown
				} else {
					c.K = KUp
				}
				return "shift-flipped"
			}
		case 5:
			m, _ := ParseMode(ds[i].Ann)
			for {
				k := AllModes[r.Intn(4)]
				if k != m || ds[i].Ann == "" {
					ds[i].Ann = spell[k][0]
					break
				}
			}
			return "head-mode-changed"
		case 6:
			*defs = append(*defs, SDef{Name: ds[i].Name, Ann: ds[i].Ann, Body: cloneS(ds[i].Body)})
			return "duplicate-definition"
		case 7:
			// F15's shape: explicit head annotation directly on a shift with another target mode
			if ds[i].Body.K != KUp && ds[i].Body.K != KDown {
				i = r.Intn(len(ds))
				continue
			}
			to, _ := ParseMode(ds[i].Body.To)
			for {
				k := AllModes[r.Intn(4)]
				if k != to {
					ds[i].Ann = spell[k][0]
					break
				}
			}
			return "head-annotation-contradicts-shift"
		case 8:
			ds[i].Ann = ""
			return "annotation-erased"
		case 10:
			// a shift directly under a shift, each legal by itself, but the inner one does not
			// arrive at the mode the outer one starts from
			var cs []*SNode
			collect(ds[i].Body, func(n *SNode) {
				if n.K == KUp || n.K == KDown {
					cs = append(cs, n)
				}
			})
			if len(cs) == 0 {
				i = r.Intn(len(ds))
				continue
			}
			c := cs[r.Intn(len(cs))]
			f, ok := ParseMode(c.From)
			if !ok {
				continue
			}
			var ups, downs []Mode
			for _, k := range AllModes {
				if k != f && Geq(k, f) {
					ups = append(ups, k)
				}
				if k != f && Geq(f, k) {
					downs = append(downs, k)
				}
			}
			if len(ups) > 0 && (len(downs) == 0 || r.Intn(2) == 0) {
				c.L = &SNode{K: KUp, From: g.sp(f), To: g.sp(ups[r.Intn(len(ups))]), L: c.L}
			} else if len(downs) > 0 {
				c.L = &SNode{K: KDown, From: g.sp(f), To: g.sp(downs[r.Intn(len(downs))]), L: c.L}
			} else {
				continue
			}
			return "shift-chain-mismatch"
		case 9:
			// direct self alias
			*defs = append(*defs, SDef{Name: "Selfy", Body: &SNode{K: KName, Name: "Selfy"}})
			return "alias-cycle-1"
		default:
			// non-uniform: reference to a definition of another mode in a branch
			var cs []*SNode
			collect(ds[i].Body, func(n *SNode) {
				if n.K == KUnit {
					cs = append(cs, n)
				}
			})
			if len(cs) == 0 {
				i = r.Intn(len(ds))
				continue
			}
			c := cs[r.Intn(len(cs))]
			c.K, c.Name = KName, g.names[r.Intn(len(g.names))]
			return "reference-of-any-mode"
		}
	}
	return ""
}

// EqVariants extends a (well-formed) environment with definitions that are equal to, or
// differ in exactly one place from, existing ones; returns the new definitions' names.
func EqVariants(r *rand.Rand, defs []SDef) []SDef {
	out := append([]SDef(nil), defs...)
	n := len(defs)
	rename := func(body *SNode, m map[string]string) *SNode {
		c := cloneS(body)
		collect(c, func(x *SNode) {
			if x.K == KName {
				if to, ok := m[x.Name]; ok {
					x.Name = to
				}
			}
		})
		return c
	}
	// re-association: D * D against body(D) * reassociated(body(D)). The two right-hand
	// components print alike when brackets are dropped, but they are different types.
	for k, d := range defs {
		var cand *SNode
		c := cloneS(d.Body)
		collect(c, func(x *SNode) {
			if cand == nil && (x.K == KSend || x.K == KRecv) && x.L.K == x.K {
				cand = x
			}
		})
		if cand == nil || r.Intn(2) == 0 {
			continue
		}
		// (a op b) op c  ->  a op (b op c)
		a, bb, cc := cand.L.L, cand.L.R, cand.R
		cand.L = a
		cand.R = &SNode{K: cand.K, L: bb, R: cc}
		ref := &SNode{K: KName, Name: d.Name}
		out = append(out, SDef{Name: fmt.Sprintf("%sPairN%d", d.Name, k), Ann: d.Ann, Body: &SNode{K: KSend, L: ref, R: ref}})
		out = append(out, SDef{Name: fmt.Sprintf("%sPairS%d", d.Name, k), Ann: d.Ann, Body: &SNode{K: KSend, L: cloneS(d.Body), R: c}})
		out = append(out, SDef{Name: fmt.Sprintf("%sPairT%d", d.Name, k), Ann: d.Ann, Body: &SNode{K: KSend, L: cloneS(d.Body), R: cloneS(d.Body)}})
		break
	}
	// an isomorphic copy of the whole environment with one difference in ONE definition: every
	// copied name that reaches the changed definition differs from its original only deep
	// below pairs of names
	if r.Intn(2) == 0 {
		m := map[string]string{}
		for _, e := range defs {
			m[e.Name] = e.Name + "J"
		}
		var copies []SDef
		for _, e := range defs {
			copies = append(copies, SDef{Name: m[e.Name], Ann: e.Ann, Body: rename(e.Body, m)})
		}
		var cs []*SNode
		collect(copies[r.Intn(len(copies))].Body, func(x *SNode) {
			if x.K == KUnit || x.K == KSend || x.K == KRecv {
				cs = append(cs, x)
			}
		})
		if len(cs) > 0 {
			x := cs[r.Intn(len(cs))]
			switch x.K {
			case KUnit:
				x.K, x.L, x.R = KSend, &SNode{K: KUnit}, &SNode{K: KUnit}
			case KSend:
				x.K = KRecv
			default:
				x.K = KSend
			}
			out = append(out, copies...)
		}
	}
	// wide choices: 17..40 branches; a permuted copy (equal) and a copy with one label
	// changed (same number of branches, unequal)
	if r.Intn(3) == 0 {
		m := AllModes[r.Intn(4)]
		k := []Kind{KPlus, KWith}[r.Intn(2)]
		nb := 17 + r.Intn(24)
		mk := func() *SNode {
			x := &SNode{K: k}
			for i := 0; i < nb; i++ {
				x.Br = append(x.Br, SBranch{L: fmt.Sprintf("w%d", i), T: &SNode{K: KUnit}})
			}
			return x
		}
		a, b, c := mk(), mk(), mk()
		r.Shuffle(len(b.Br), func(i, j int) { b.Br[i], b.Br[j] = b.Br[j], b.Br[i] })
		c.Br[r.Intn(nb)].L = "wother"
		ann := spell[m][0]
		out = append(out, SDef{Name: "WideA", Ann: ann, Body: a}, SDef{Name: "WideB", Ann: ann, Body: b}, SDef{Name: "WideC", Ann: ann, Body: c})
	}
	for k := 0; k < 3; k++ {
		d := defs[r.Intn(n)]
		switch r.Intn(6) {
		case 0: // one-step unrolling: a copy of the body under a new name (it refers to the old names)
			out = append(out, SDef{Name: fmt.Sprintf("%sU%d", d.Name, k), Ann: d.Ann, Body: cloneS(d.Body)})
		case 1: // alias
			out = append(out, SDef{Name: fmt.Sprintf("%sA%d", d.Name, k), Body: &SNode{K: KName, Name: d.Name}})
		case 2: // isomorphic copy of the whole environment
			m := map[string]string{}
			for _, e := range defs {
				m[e.Name] = fmt.Sprintf("%sI%d", e.Name, k)
			}
			for _, e := range defs {
				out = append(out, SDef{Name: m[e.Name], Ann: e.Ann, Body: rename(e.Body, m)})
			}
		case 3: // branches permuted
			c := cloneS(d.Body)
			collect(c, func(x *SNode) {
				if len(x.Br) > 1 {
					r.Shuffle(len(x.Br), func(i, j int) { x.Br[i], x.Br[j] = x.Br[j], x.Br[i] })
				}
			})
			out = append(out, SDef{Name: fmt.Sprintf("%sP%d", d.Name, k), Ann: d.Ann, Body: c})
		default: // one difference somewhere (self references redirected to the variant: deep difference)
			nm := fmt.Sprintf("%sD%d", d.Name, k)
			c := rename(d.Body, map[string]string{d.Name: nm})
			var cs []*SNode
			collect(c, func(x *SNode) { cs = append(cs, x) })
			x := cs[r.Intn(len(cs))]
			switch {
			case x.K == KUnit:
				x.K = KSend
				x.L, x.R = &SNode{K: KUnit}, &SNode{K: KUnit}
			case x.K == KSend:
				x.K = KRecv
			case x.K == KRecv:
				x.K = KSend
			case x.K == KPlus:
				x.K = KWith
			case (x.K == KWith || x.K == KPlus) && len(x.Br) > 1 && r.Intn(3) == 0:
				x.Br[r.Intn(len(x.Br))].L = "zz" // same number of branches, one label differs
			case (x.K == KWith || x.K == KPlus) && len(x.Br) > 1 && r.Intn(2) == 0:
				// one branch fewer: the variant's labels are a strict subset of the original's
				i := r.Intn(len(x.Br))
				x.Br = append(append([]SBranch{}, x.Br[:i]...), x.Br[i+1:]...)
			case (x.K == KWith || x.K == KPlus) && r.Intn(2) == 0:
				// one branch more: a strict superset
				x.Br = append(append([]SBranch{}, x.Br...), SBranch{L: "zextra", T: &SNode{K: KUnit}})
			case x.K == KWith && len(x.Br) > 1:
				x.Br = x.Br[:len(x.Br)-1]
			case x.K == KWith:
				x.Br[0].L = "other"
			case x.K == KName:
				x.K, x.Name = KUnit, ""
			default:
				x.L = &SNode{K: KSend, L: x.L, R: &SNode{K: KUnit}}
			}
			out = append(out, SDef{Name: nm, Ann: d.Ann, Body: c})
		}
	}
	return out
}

// DeepChains: two isomorphic families of n recursive definitions, each a choice with k
// branches that all lead to the next level (the last level loops back to the first).
// Comparing the heads is linear with a memo of visited pairs and exponential without.
func DeepChains(n, k int, mode string) []SDef {
	var defs []SDef
	for _, fam := range []string{"ChA", "ChB"} {
		for i := 0; i < n; i++ {
			next := fmt.Sprintf("%s%d", fam, (i+1)%n)
			b := &SNode{K: KPlus}
			if i%2 == 1 {
				b.K = KWith
			}
			for j := 0; j < k; j++ {
				b.Br = append(b.Br, SBranch{L: fmt.Sprintf("l%d", j), T: &SNode{K: KName, Name: next}})
			}
			defs = append(defs, SDef{Name: fmt.Sprintf("%s%d", fam, i), Ann: mode, Body: b})
		}
	}
	return defs
}

// nodeDeep builds deeply nested operator trees (binary operators and shifts in every operand
// position, few leaves): the shapes a printer needs brackets for.
func (g *g2) nodeDeep(m Mode, d int) *SNode {
	if d <= 0 {
		return &SNode{K: KUnit}
	}
	switch x := g.r.Intn(12); {
	case x == 0:
		return &SNode{K: KUnit}
	case x <= 3:
		return &SNode{K: KSend, L: g.nodeDeep(m, d-1), R: g.nodeDeep(m, d-1-g.r.Intn(2))}
	case x <= 6:
		return &SNode{K: KRecv, L: g.nodeDeep(m, d-1), R: g.nodeDeep(m, d-1-g.r.Intn(2))}
	case x <= 8:
		var ks []Mode
		for _, k := range AllModes {
			if Geq(m, k) {
				ks = append(ks, k)
			}
		}
		k := ks[g.r.Intn(len(ks))]
		return &SNode{K: KUp, From: g.sp(k), To: g.sp(m), L: g.nodeDeep(k, d-1)}
	case x <= 10:
		var ks []Mode
		for _, k := range AllModes {
			if Geq(k, m) {
				ks = append(ks, k)
			}
		}
		k := ks[g.r.Intn(len(ks))]
		return &SNode{K: KDown, From: g.sp(k), To: g.sp(m), L: g.nodeDeep(k, d-1)}
	default:
		n := &SNode{K: []Kind{KPlus, KWith}[g.r.Intn(2)]}
		for i := 0; i < 1+g.r.Intn(2); i++ {
			n.Br = append(n.Br, SBranch{L: fmt.Sprintf("l%d", i), T: g.nodeDeep(m, d-1)})
		}
		return n
	}
}

// GenDeepDefs returns 2..4 well-formed definitions with deeply nested bodies.
func GenDeepDefs(r *rand.Rand) []SDef {
	g := &g2{r: r}
	var defs []SDef
	long := ""
	if r.Intn(6) == 0 {
		long = "_" + strings.Repeat("name", 16+r.Intn(20)) // identifiers of 65..145 characters
	}
	for i := 0; i < 2+r.Intn(3); i++ {
		m := AllModes[r.Intn(4)]
		body := g.nodeDeep(m, 3+r.Intn(4))
		for body.K == KUnit {
			body = g.nodeDeep(m, 4)
		}
		d := SDef{Name: fmt.Sprintf("D%d%s", i, long), Body: body}
		if body.K != KUp && body.K != KDown {
			d.Ann = g.sp(m)
		}
		defs = append(defs, d)
	}
	return defs
}

// GenCycleDefs: a cycle of 2..4 unannotated definitions of a non-default mode whose only
// mode source (an annotated definition, or a shift) is reachable through ONE member of the
// cycle, at a random position of that member's body, plus unannotated users that reach the
// cycle through a member of their own choosing; declaration order shuffled. Every
// definition has the mode of the source; inference has to get there whatever definition it
// starts from and whatever it has explored before.
func GenCycleDefs(r *rand.Rand) []SDef {
	g := &g2{r: r}
	m := []Mode{Lin, Aff, Mul}[r.Intn(3)]
	k := 2 + r.Intn(3)
	var defs []SDef
	src := &SNode{K: KName, Name: "Src"}
	switch r.Intn(3) {
	case 0:
		defs = append(defs, SDef{Name: "Src", Ann: g.sp(m), Body: &SNode{K: KUnit}})
	case 1:
		defs = append(defs, SDef{Name: "Src", Ann: g.sp(m), Body: &SNode{K: KPlus, Br: []SBranch{{L: "a", T: &SNode{K: KUnit}}, {L: "b", T: &SNode{K: KName, Name: "Src"}}}}})
	default:
		// the source is a shift written inside the cycle member itself
		var ks []Mode
		for _, q := range AllModes {
			if Geq(q, m) {
				ks = append(ks, q)
			}
		}
		q := ks[r.Intn(len(ks))]
		src = &SNode{K: KDown, From: g.sp(q), To: g.sp(m), L: &SNode{K: KUnit}}
	}
	holder := r.Intn(k)
	name := func(i int) string { return fmt.Sprintf("Cy%d", i%k) }
	for i := 0; i < k; i++ {
		next := &SNode{K: KName, Name: name(i + 1)}
		var parts []*SNode
		parts = append(parts, next)
		if r.Intn(3) == 0 {
			parts = append(parts, &SNode{K: KUnit})
		}
		if i == holder {
			parts = append(parts, src)
		}
		if r.Intn(4) == 0 {
			parts = append(parts, &SNode{K: KName, Name: name(i + 2)})
		}
		r.Shuffle(len(parts), func(a, b int) { parts[a], parts[b] = parts[b], parts[a] })
		var body *SNode
		if len(parts) == 1 || r.Intn(2) == 0 {
			body = &SNode{K: []Kind{KPlus, KWith}[r.Intn(2)]}
			for j, p := range parts {
				body.Br = append(body.Br, SBranch{L: fmt.Sprintf("l%d", j), T: p})
			}
		} else {
			body = parts[0]
			for _, p := range parts[1:] {
				body = &SNode{K: []Kind{KSend, KRecv}[r.Intn(2)], L: p, R: body}
			}
			if body.K == KName {
				body = &SNode{K: KSend, L: &SNode{K: KUnit}, R: body}
			}
		}
		defs = append(defs, SDef{Name: name(i), Body: body})
	}
	for u := 0; u < 1+r.Intn(2); u++ {
		ref := &SNode{K: KName, Name: name(r.Intn(k))}
		body := &SNode{K: KSend, L: ref, R: &SNode{K: KUnit}}
		if r.Intn(2) == 0 {
			body = &SNode{K: KWith, Br: []SBranch{{L: "go", T: ref}}}
		}
		defs = append(defs, SDef{Name: fmt.Sprintf("User%d", u), Body: body})
	}
	r.Shuffle(len(defs), func(i, j int) { defs[i], defs[j] = defs[j], defs[i] })
	return defs
}

// GenChainDefs: a protocol of 65..150 states, St_i = +{next : St_i+1, stop : 1}, none of them
// annotated except the last one, which fixes a non-default mode for all of them; declared
// in order, in reverse order or shuffled.
func GenChainDefs(r *rand.Rand) []SDef {
	g := &g2{r: r}
	m := []Mode{Lin, Aff, Mul}[r.Intn(3)]
	n := 65 + r.Intn(86)
	var defs []SDef
	for i := 0; i < n; i++ {
		k := []Kind{KPlus, KWith}[r.Intn(2)]
		defs = append(defs, SDef{Name: fmt.Sprintf("St%d", i), Body: &SNode{K: k, Br: []SBranch{{L: "next", T: &SNode{K: KName, Name: fmt.Sprintf("St%d", i+1)}}, {L: "stop", T: &SNode{K: KUnit}}}}})
	}
	defs = append(defs, SDef{Name: fmt.Sprintf("St%d", n), Ann: g.sp(m), Body: &SNode{K: KPlus, Br: []SBranch{{L: "stop", T: &SNode{K: KUnit}}}}})
	switch r.Intn(3) {
	case 0:
		for i, j := 0, len(defs)-1; i < j; i, j = i+1, j-1 {
			defs[i], defs[j] = defs[j], defs[i]
		}
	case 1:
		r.Shuffle(len(defs), func(i, j int) { defs[i], defs[j] = defs[j], defs[i] })
	}
	return defs
}
