// Package sem is R2: a reference small-step semantics of SAX (continuation passing, with
// drop, split and copy of multi-named providers) over the harness AST. It offers
//   - Lazy(): one run with the lazy copy discipline (copy exactly at the next action on
//     self); for contraction-free programs the result is THE multiset of the program;
//   - Multisets(): the set of print multisets over all copy timings (bounded search);
//   - Admits(sigma): whether an observed print sequence can be produced.
// It shares no code with Grits.
package sem

import (
	"fmt"
	"hash/fnv"
	"sort"
	"strings"

	. "verif/ast"
	"verif/ref/typing"
)

type SP struct {
	names []int
	t     *Term
	env   map[string]int
	alias string
	eager bool // declared with several names: copied before its first step in every Grits mode
	dead  bool
	pruneAll bool // all names dropped and the search decided not to copy it: the next silent step removes it
}

type M struct {
	prog    *Program
	funcs   map[string]*Func
	bodies  map[string]*Term // function bodies with the explicit provider name replaced by self
	procs   []*SP
	prov    map[int]*SP
	dropped map[int]bool
	nchan   int
	Prints  []string
	Steps   int
	contr   bool           // the program uses contraction (split / multi-name declarations)
	split   map[*Term]bool // memo: term may reach a split
	fsplit  map[string]bool
	Top     map[string]int
}

func New(p *Program) *M {
	m := &M{prog: p, funcs: map[string]*Func{}, bodies: map[string]*Term{}, prov: map[int]*SP{}, dropped: map[int]bool{}, split: map[*Term]bool{}, Top: map[string]int{}}
	for _, f := range p.Funcs {
		if _, dup := m.funcs[f.Name]; dup {
			continue
		}
		m.funcs[f.Name] = f
		b := f.Body
		if f.Prov != "" {
			b = typing.SubstSelf(CloneTerm(f.Body), f.Prov)
		}
		m.bodies[f.Name] = b
	}
	m.fsplit = map[string]bool{}
	for changed := true; changed; {
		changed = false
		for n, b := range m.bodies {
			if !m.fsplit[n] && m.syntacticSplit(b) {
				m.fsplit[n] = true
				changed = true
			}
		}
	}
	m.contr = p.UsesContraction()
	top := m.Top
	for _, pr := range p.Procs {
		for _, n := range pr.Names {
			top[n] = m.fresh()
		}
	}
	// the process made by the i-th exec declaration provides the name exec<i>
	execChan := make([]int, len(p.Execs))
	for i := range p.Execs {
		execChan[i] = m.fresh()
		top[fmt.Sprintf("exec%d", i+1)] = execChan[i]
	}
	for _, pr := range p.Procs {
		q := &SP{t: pr.Body, env: top, eager: len(pr.Names) > 1}
		for _, n := range pr.Names {
			q.names = append(q.names, top[n])
			m.prov[top[n]] = q
		}
		m.procs = append(m.procs, q)
	}
	for i, e := range p.Execs {
		c := execChan[i]
		q := &SP{t: &Term{Op: "call", Fn: e}, env: map[string]int{}, names: []int{c}}
		m.prov[c] = q
		m.procs = append(m.procs, q)
	}
	return m
}

func (m *M) syntacticSplit(t *Term) bool {
	found := false
	Walk(t, func(x *Term) {
		if x.Op == "split" || (x.Op == "call" && m.fsplit[x.Fn]) {
			found = true
		}
	})
	return found
}

func (m *M) fresh() int { m.nchan++; return m.nchan }

func ext(env map[string]int, kv ...interface{}) map[string]int {
	e := make(map[string]int, len(env)+2)
	for k, v := range env {
		e[k] = v
	}
	for i := 0; i < len(kv); i += 2 {
		e[Base(kv[i].(string))] = kv[i+1].(int)
	}
	return e
}

func (p *SP) isSelf(n string) bool {
	b := Base(n)
	return b == "self" || (p.alias != "" && b == p.alias)
}

func (p *SP) ch(n string) (int, bool) {
	c, ok := p.env[Base(n)]
	return c, ok
}

func (m *M) freeChans(p *SP) map[string]int {
	out := map[string]int{}
	for _, v := range FreeVars(p.t) {
		if p.alias != "" && v == p.alias {
			continue
		}
		if c, ok := p.env[v]; ok {
			out[v] = c
		}
	}
	return out
}

func (m *M) kill(p *SP) {
	p.dead = true
	for _, n := range p.names {
		if m.prov[n] == p {
			delete(m.prov, n)
		}
	}
}

// selfAction: is the process poised at an action on its own provider channel?
func (p *SP) selfAction() (pos bool, ok bool) {
	t := p.t
	switch t.Op {
	case "send", "sel", "cast", "close":
		if p.isSelf(t.X) {
			return true, true
		}
	case "recv", "case", "shift":
		if p.isSelf(t.X) {
			return false, true
		}
	}
	return false, false
}

// rename replaces name c of its provider by the names `to`.
func (m *M) rename(c int, to []int, inherit bool) bool {
	q := m.prov[c]
	if q == nil {
		return false
	}
	var nn []int
	for _, n := range q.names {
		if n == c {
			nn = append(nn, to...)
		} else {
			nn = append(nn, n)
		}
	}
	q.names = nn
	delete(m.prov, c)
	for _, n := range to {
		m.prov[n] = q
		if inherit && m.dropped[c] {
			m.dropped[n] = true
		}
	}
	return true
}

func (m *M) copyProc(p *SP) {
	k := len(p.names)
	fc := m.freeChans(p)
	vars := make([]string, 0, len(fc))
	for v := range fc {
		vars = append(vars, v)
	}
	sort.Strings(vars)
	envs := make([]map[string]int, k)
	for i := range envs {
		envs[i] = ext(p.env)
	}
	done := map[int][]int{}
	for _, v := range vars {
		c := fc[v]
		fr, ok := done[c]
		if !ok {
			fr = make([]int, k)
			for i := range fr {
				fr[i] = m.fresh()
			}
			m.rename(c, fr, true)
			done[c] = fr
		}
		for i := range envs {
			envs[i][v] = fr[i]
		}
	}
	names := p.names
	m.kill(p)
	for i, n := range names {
		q := &SP{names: []int{n}, t: p.t, env: envs[i], alias: p.alias}
		m.prov[n] = q
		m.procs = append(m.procs, q)
	}
	m.Steps++
}

// Step kinds returned by silent().
const (
	none = iota
	progressed
)

// silent tries one non-print, non-optional-copy step of p. Forced things (copy at a self
// action, garbage collection of dropped names) are done here.
func (m *M) silent(p *SP, lazyCopy bool) bool {
	t := p.t
	if pos, ok := p.selfAction(); ok {
		var live []int
		for _, n := range p.names {
			if !m.dropped[n] {
				live = append(live, n)
			}
		}
		if len(live) > 0 && len(live) != len(p.names) {
			// some, not all, of its names have been dropped: forgetting them without copying the
			// process, or copying it first and letting the dropped copy go, are both behaviours
			// of the interpreters (the copy duplicates the providers of its free names): a choice
			// for the search (actions aPrune / aCopy), not a silent step
			return false
		}
		if len(live) == 0 && len(p.names) > 1 && !p.pruneAll {
			// every name of a multi-name process has been dropped: the interpreters may still copy
			// it first (and its providers with it) and let the copies go: a choice for the search
			// (actions aPrune / aCopy), as above
			return false
		}
		for _, n := range p.names {
			if m.dropped[n] {
				delete(m.prov, n)
			}
		}
		if len(live) == 0 {
			if pos {
				for _, v := range []string{t.Y, t.Z} {
					if v != "" && !p.isSelf(v) {
						if c, ok := p.ch(v); ok {
							m.dropped[c] = true
						}
					}
				}
			} else {
				for _, c := range m.freeChans(p) {
					m.dropped[c] = true
				}
			}
			m.kill(p)
			return true
		}
		return false // waits for its client (or, if multi-named, for its copy: an action)
	}
	if len(p.names) > 1 && p.eager && t.Op != "fwd" {
		return false // must be copied before it does anything: an action
	}
	switch t.Op {
	case "print":
		return false
	case "new":
		c := m.fresh()
		q := &SP{names: []int{c}, t: t.Body, env: p.env}
		m.prov[c] = q
		m.procs = append(m.procs, q)
		p.env = ext(p.env, t.Y, c)
		p.t = t.Cont
		return true
	case "call":
		f := m.funcs[t.Fn]
		env := map[string]int{}
		args := t.Args
		if len(args) == len(f.Params)+1 {
			args = args[1:]
		}
		for i, pa := range f.Params {
			env[pa.N] = p.env[Base(args[i])]
		}
		p.env = env
		p.t = m.bodies[t.Fn]
		p.alias = ""
		return true
	case "drop":
		if m.contr {
			return false // an action: dropping before or after the provider is copied differs
		}
		c, _ := p.ch(t.X)
		m.dropped[c] = true
		p.t = t.Cont
		return true
	case "split":
		return false // gives another process a second name: an action, its timing matters
	case "fwd":
		if len(p.names) > 1 {
			return false // hands several names to another process: an action
		}
		return m.doFwd(p)
	}
	// communication as a client
	x, okx := p.ch(t.X)
	if !okx {
		return false
	}
	q := m.prov[x]
	if q == nil || q.dead || q == p {
		return false
	}
	if len(q.names) != 1 {
		return false // the provider must copy first
	}
	if _, at := q.selfAction(); !at {
		return false
	}
	qt := q.t
	switch t.Op {
	case "recv":
		if qt.Op == "send" {
			cy, _ := q.ch(qt.Y)
			cz, _ := q.ch(qt.Z)
			p.env = ext(p.env, t.Y, cy, t.Z, cz)
			p.t = t.Cont
			m.kill(q)
			return true
		}
	case "case":
		if qt.Op == "sel" {
			for _, b := range t.Brs {
				if b.Lbl == qt.Lbl {
					cy, _ := q.ch(qt.Y)
					p.env = ext(p.env, b.Var, cy)
					p.t = b.Body
					m.kill(q)
					return true
				}
			}
			panic("sem: no branch " + qt.Lbl)
		}
	case "wait":
		if qt.Op == "close" {
			p.t = t.Cont
			m.kill(q)
			return true
		}
	case "shift":
		if qt.Op == "cast" {
			cy, _ := q.ch(qt.Y)
			p.env = ext(p.env, t.Y, cy)
			p.t = t.Cont
			m.kill(q)
			return true
		}
	case "send":
		if qt.Op == "recv" {
			cy, _ := p.ch(t.Y)
			q.env = ext(q.env, qt.Y, cy)
			q.alias = Base(qt.Z)
			q.t = qt.Cont
			m.takeover(q, p)
			return true
		}
	case "sel":
		if qt.Op == "case" {
			for _, b := range qt.Brs {
				if b.Lbl == t.Lbl {
					q.t = b.Body
					q.alias = Base(b.Var)
					m.takeover(q, p)
					return true
				}
			}
			panic("sem: no branch " + t.Lbl)
		}
	case "cast":
		if qt.Op == "shift" {
			q.t = qt.Cont
			q.alias = Base(qt.Y)
			m.takeover(q, p)
			return true
		}
	}
	return false
}

func (m *M) doSplit(p *SP) bool {
	t := p.t
	c, _ := p.ch(t.X)
	if m.prov[c] == nil {
		return false
	}
	a, b := m.fresh(), m.fresh()
	m.rename(c, []int{a, b}, true)
	p.env = ext(p.env, t.Y, a, t.Z, b)
	p.t = t.Cont
	m.Steps++
	return true
}

func (m *M) doFwd(p *SP) bool {
	c, _ := p.ch(p.t.Y)
	if m.prov[c] == nil {
		return false
	}
	names := p.names
	m.kill(p)
	m.rename(c, names, false)
	return true
}

// provider q continues as the provider of client p's names
func (m *M) takeover(q, p *SP) {
	for _, n := range q.names {
		delete(m.prov, n)
	}
	names := p.names
	m.kill(p)
	q.names = names
	q.eager = false
	for _, n := range names {
		m.prov[n] = q
	}
}

func (m *M) compact() {
	var live []*SP
	for _, p := range m.procs {
		if !p.dead {
			live = append(live, p)
		}
	}
	m.procs = live
}

// closure runs silent steps until none applies. Returns false if the step bound is hit.
func (m *M) closure(bound int) bool {
	for {
		progress := false
		for i := 0; i < len(m.procs); i++ {
			p := m.procs[i]
			for !p.dead && m.silent(p, true) {
				progress = true
				m.Steps++
				if m.Steps > bound {
					return false
				}
			}
		}
		m.compact()
		if !progress {
			return true
		}
	}
}

// Lazy runs to quiescence with the lazy copy discipline: prints fire as soon as they are
// enabled, splits and forwards happen at once, a process is copied only when it cannot go
// on otherwise (poised on its own channel, or declared with several names). Returns false if
// the step bound is hit (divergence).
func (m *M) Lazy(bound int) bool {
	for {
		if !m.closure(bound) {
			return false
		}
		acts := m.actions()
		done := false
		for _, a := range acts {
			if a.kind == aCopy && !a.forced {
				continue
			}
			if l := m.apply(a); l != "" {
				m.Prints = append(m.Prints, l)
			}
			done = true
			break
		}
		if m.Steps > bound {
			return false
		}
		if !done {
			return true
		}
	}
}

// Live describes what is left at quiescence.
func (m *M) Live() []string {
	var out []string
	for _, p := range m.procs {
		out = append(out, fmt.Sprintf("%s[%d names]", p.t.Op, len(p.names)))
	}
	sort.Strings(out)
	return out
}

// LiveOnlyTopSenders: every remaining process is poised at a positive action on a
// top-level channel that nobody consumes (the only survivors C02 admits in sync mode).
func (m *M) FinalOK() (bool, string) {
	for _, p := range m.procs {
		pos, at := p.selfAction()
		if !at || !pos {
			return false, fmt.Sprintf("%s not at a positive self action", p.t.Op)
		}
	}
	return true, ""
}

// ---- cloning and canonical keys (for the searches) ----

func (m *M) clone() *M {
	c := &M{prog: m.prog, funcs: m.funcs, bodies: m.bodies, contr: m.contr, prov: make(map[int]*SP, len(m.prov)), dropped: make(map[int]bool, len(m.dropped)), nchan: m.nchan, Steps: m.Steps, split: m.split, fsplit: m.fsplit, Top: m.Top}
	c.Prints = append([]string(nil), m.Prints...)
	for k, v := range m.dropped {
		if v {
			c.dropped[k] = true
		}
	}
	for _, p := range m.procs {
		if p.dead {
			continue
		}
		q := *p
		q.names = append([]int(nil), p.names...)
		c.procs = append(c.procs, &q)
		for _, n := range q.names {
			if m.prov[n] == p {
				c.prov[n] = &q
			}
		}
	}
	return c
}

// key: a canonical serialisation of the configuration up to renaming of channels.
func (m *M) key() string {
	procs := m.procs
	// Merkle signature of each process ignoring sharing
	sig := map[*SP]uint64{}
	var sigOf func(p *SP, depth int) uint64
	sigOf = func(p *SP, depth int) uint64 {
		if s, ok := sig[p]; ok {
			return s
		}
		sig[p] = 1 // cycle guard (cannot happen: the topology is acyclic)
		h := fnv.New64a()
		fmt.Fprintf(h, "%p|%s|%d|%v|", p.t, p.alias, len(p.names), p.eager)
		for _, n := range p.names {
			if m.dropped[n] {
				h.Write([]byte("D"))
			} else {
				h.Write([]byte("L"))
			}
		}
		fc := m.freeChans(p)
		vars := make([]string, 0, len(fc))
		for v := range fc {
			vars = append(vars, v)
		}
		sort.Strings(vars)
		for _, v := range vars {
			c := fc[v]
			q := m.prov[c]
			if q == nil {
				fmt.Fprintf(h, "%s=nil,d%v;", v, m.dropped[c])
				continue
			}
			idx := 0
			for i, n := range q.names {
				if n == c {
					idx = i
				}
			}
			fmt.Fprintf(h, "%s=%x.%d;", v, sigOf(q, depth+1), idx)
		}
		s := h.Sum64()
		sig[p] = s
		return s
	}
	for _, p := range procs {
		sigOf(p, 0)
	}
	// roots: processes none of whose names is held by a live process
	held := map[int]bool{}
	for _, p := range procs {
		for _, c := range m.freeChans(p) {
			held[c] = true
		}
	}
	var roots []*SP
	for _, p := range procs {
		r := true
		for _, n := range p.names {
			if held[n] {
				r = false
			}
		}
		if r {
			roots = append(roots, p)
		}
	}
	sort.SliceStable(roots, func(i, j int) bool { return sig[roots[i]] < sig[roots[j]] })
	var b strings.Builder
	visit := map[*SP]int{}
	var dfs func(p *SP)
	dfs = func(p *SP) {
		if id, ok := visit[p]; ok {
			fmt.Fprintf(&b, "^%d", id)
			return
		}
		visit[p] = len(visit)
		fmt.Fprintf(&b, "(%p|%s|%v|", p.t, p.alias, p.eager)
		for _, n := range p.names {
			if m.dropped[n] {
				b.WriteByte('D')
			} else {
				b.WriteByte('L')
			}
		}
		fc := m.freeChans(p)
		vars := make([]string, 0, len(fc))
		for v := range fc {
			vars = append(vars, v)
		}
		sort.Strings(vars)
		for _, v := range vars {
			c := fc[v]
			q := m.prov[c]
			if q == nil {
				fmt.Fprintf(&b, "%s=nil,d%v;", v, m.dropped[c])
				continue
			}
			idx := 0
			for i, n := range q.names {
				if n == c {
					idx = i
				}
			}
			fmt.Fprintf(&b, "%s.%d=", v, idx)
			dfs(q)
			b.WriteByte(';')
		}
		b.WriteByte(')')
	}
	for _, r := range roots {
		dfs(r)
	}
	// anything not reachable from a root (cannot happen in an acyclic topology)
	for _, p := range procs {
		if _, ok := visit[p]; !ok {
			dfs(p)
		}
	}
	return b.String()
}

// mayCopy: some process is multi-named, or some live code can still split.
func (m *M) mayCopy() bool {
	for _, p := range m.procs {
		if len(p.names) > 1 {
			return true
		}
		s, ok := m.split[p.t]
		if !ok {
			s = m.syntacticSplit(p.t)
			m.split[p.t] = s
		}
		if s {
			return true
		}
	}
	return false
}

const (
	aPrint = iota
	aCopy
	aSplit
	aFwd
	aDrop
	aPrune // a multi-name process forgets the names that have been dropped
)

type action struct {
	p      int // index into procs
	kind   int
	forced bool // a copy without which the process cannot go on
}

// actions lists the steps whose relative order matters: prints, copies of multi-named
// processes, splits, and forwards that hand over several names.
func (m *M) actions() []action {
	var out []action
	for i, p := range m.procs {
		if p.dead {
			continue
		}
		_, at := p.selfAction()
		multi := len(p.names) > 1
		if multi && at {
			nd := 0
			for _, n := range p.names {
				if m.dropped[n] {
					nd++
				}
			}
			if nd > 0 && nd <= len(p.names) {
				// listed first: the lazy discipline forgets dropped names instead of copying
				out = append(out, action{i, aPrune, false}, action{i, aCopy, false})
				continue
			}
		}
		switch {
		case multi && p.t.Op == "fwd":
			if c, ok := p.ch(p.t.Y); ok && m.prov[c] != nil {
				out = append(out, action{i, aFwd, false})
			}
		case multi && (at || p.eager):
			out = append(out, action{i, aCopy, true})
		case multi:
			out = append(out, action{i, aCopy, false})
		}
		if at || (multi && p.eager) {
			continue
		}
		switch p.t.Op {
		case "print":
			out = append(out, action{i, aPrint, false})
		case "split":
			if c, ok := p.ch(p.t.X); ok && m.prov[c] != nil {
				out = append(out, action{i, aSplit, false})
			}
		case "drop":
			if m.contr {
				out = append(out, action{i, aDrop, false})
			}
		}
	}
	return out
}

func (m *M) apply(a action) string {
	p := m.procs[a.p]
	switch a.kind {
	case aCopy:
		m.copyProc(p)
		m.compact()
	case aSplit:
		m.doSplit(p)
	case aFwd:
		m.doFwd(p)
		m.Steps++
		m.compact()
	case aPrune:
		var live []int
		for _, n := range p.names {
			if !m.dropped[n] {
				live = append(live, n)
			}
		}
		if len(live) == 0 {
			// all names dropped: let the next silent step kill it (and pass the drop on)
			p.pruneAll = true
			m.Steps++
			break
		}
		for _, n := range p.names {
			if m.dropped[n] {
				delete(m.prov, n)
			}
		}
		p.names = live
		m.Steps++
	case aDrop:
		c, _ := p.ch(p.t.X)
		m.dropped[c] = true
		p.t = p.t.Cont
		m.Steps++
	default:
		l := p.t.Lbl
		p.t = p.t.Cont
		m.Steps++
		return l
	}
	return ""
}

// MS is a print multiset in canonical text form "a*2,b*1".
func MS(labels []string) string {
	cnt := map[string]int{}
	for _, l := range labels {
		cnt[l]++
	}
	keys := make([]string, 0, len(cnt))
	for k := range cnt {
		keys = append(keys, k)
	}
	sort.Strings(keys)
	var b strings.Builder
	for i, k := range keys {
		if i > 0 {
			b.WriteByte(',')
		}
		fmt.Fprintf(&b, "%s*%d", k, cnt[k])
	}
	return b.String()
}

// DebugNoMemo switches the memo of Admits off (development aid).
var DebugNoMemo bool

type Search struct {
	States   int
	MaxState int
	MaxSteps int
	Bounded  bool // a bound was hit: the answer is incomplete
}

// Multisets explores all copy timings and returns the set of final print multisets (in MS
// form). If s.Bounded is set afterwards the set may be incomplete.
func (m *M) Multisets(s *Search) map[string]bool {
	memo := map[string]map[string]bool{}
	var rec func(c *M) map[string]bool
	rec = func(c *M) map[string]bool {
		if !c.closure(s.MaxSteps) {
			s.Bounded = true
			return map[string]bool{}
		}
		if !c.mayCopy() {
			// no more contraction: the rest is deterministic
			d := c.clone()
			d.Prints = nil
			if !d.Lazy(s.MaxSteps) {
				s.Bounded = true
				return map[string]bool{}
			}
			return map[string]bool{MS(d.Prints): true}
		}
		k := c.key()
		if r, ok := memo[k]; ok {
			return r
		}
		s.States++
		if s.States > s.MaxState {
			s.Bounded = true
			return map[string]bool{}
		}
		acts := c.actions()
		res := map[string]bool{}
		if len(acts) == 0 {
			res[""] = true
		}
		for _, a := range acts {
			d := c.clone()
			l := d.apply(a)
			for suf := range rec(d) {
				res[joinMS(l, suf)] = true
			}
		}
		memo[k] = res
		return res
	}
	c := m.clone()
	c.Prints = nil
	return rec(c)
}

// joinMS adds one label to a multiset in MS form.
func joinMS(l, ms string) string {
	if l == "" {
		return ms
	}
	cnt := parseMS(ms)
	cnt[l]++
	var labels []string
	for k, n := range cnt {
		for i := 0; i < n; i++ {
			labels = append(labels, k)
		}
	}
	return MS(labels)
}

func parseMS(ms string) map[string]int {
	cnt := map[string]int{}
	if ms == "" {
		return cnt
	}
	for _, part := range strings.Split(ms, ",") {
		i := strings.LastIndex(part, "*")
		n := 0
		fmt.Sscanf(part[i+1:], "%d", &n)
		cnt[part[:i]] = n
	}
	return cnt
}

// Admits: can the observed print sequence sigma be produced (by some copy timing and some
// order of independent prints)? Returns (answer, decided).
func (m *M) Admits(sigma []string, s *Search) (bool, bool) {
	type mk struct {
		k string
		i int
	}
	memo := map[mk]bool{}
	var rec func(c *M, i int) bool
	rec = func(c *M, i int) bool {
		if s.Bounded {
			return false
		}
		if !c.closure(s.MaxSteps) {
			s.Bounded = true
			return false
		}
		acts := c.actions()
		hasPrint := false
		for _, a := range acts {
			if a.kind == aPrint {
				hasPrint = true
			}
		}
		_ = hasPrint
		if i == len(sigma) && len(acts) == 0 {
			// the whole of sigma has been produced and the reference run is over: nothing that is
			// still to happen (a pending copy, split or drop) can print another label
			return true
		}
		k := mk{c.key(), i}
		if r, ok := memo[k]; ok && !DebugNoMemo {
			return r
		}
		s.States++
		if s.States > s.MaxState {
			s.Bounded = true
			return false
		}
		res := false
		for _, a := range acts {
			if a.kind == aPrint {
				if i >= len(sigma) || c.procs[a.p].t.Lbl != sigma[i] {
					continue
				}
			}
			d := c.clone()
			d.apply(a)
			ni := i
			if a.kind == aPrint {
				ni++
			}
			if rec(d, ni) {
				res = true
				break
			}
		}
		memo[k] = res
		return res
	}
	c := m.clone()
	c.Prints = nil
	r := rec(c, 0)
	return r, !s.Bounded
}

// AdmitsPrefix: can sigma be produced as a prefix of some run (debugging aid)?
func (m *M) AdmitsPrefix(sigma []string, s *Search) (bool, bool) {
	type mk struct {
		k string
		i int
	}
	memo := map[mk]bool{}
	var rec func(c *M, i int) bool
	rec = func(c *M, i int) bool {
		if s.Bounded {
			return false
		}
		if !c.closure(s.MaxSteps) {
			s.Bounded = true
			return false
		}
		if i == len(sigma) {
			return true
		}
		k := mk{c.key(), i}
		if r, ok := memo[k]; ok {
			return r
		}
		s.States++
		if s.States > s.MaxState {
			s.Bounded = true
			return false
		}
		res := false
		for _, a := range c.actions() {
			if a.kind == aPrint && c.procs[a.p].t.Lbl != sigma[i] {
				continue
			}
			d := c.clone()
			d.apply(a)
			ni := i
			if a.kind == aPrint {
				ni++
			}
			if rec(d, ni) {
				res = true
				break
			}
		}
		memo[k] = res
		return res
	}
	c := m.clone()
	c.Prints = nil
	r := rec(c, 0)
	return r, !s.Bounded
}

// Describe lists the live processes (debugging aid).
func (m *M) Describe() string {
	var b strings.Builder
	for _, p := range m.procs {
		if p.dead {
			continue
		}
		fv := m.freeChans(p)
		var fs []string
		for v, c := range fv {
			fs = append(fs, fmt.Sprintf("%s=%d", v, c))
		}
		sort.Strings(fs)
		lbl := ""
		if p.t.Op == "print" || p.t.Op == "sel" {
			lbl = p.t.Lbl
		}
		fmt.Fprintf(&b, "  names=%v eager=%v at %s %s%s(%s) free[%s]\n", p.names, p.eager, p.t.Op, lbl, p.t.Fn, p.t.X, strings.Join(fs, " "))
	}
	return b.String()
}

// DeepestFailure replays sigma and returns a description of a state at the largest prefix
// length reached, with the actions that were available there.
func (m *M) DeepestFailure(sigma []string, s *Search) string {
	best, bestDesc := -1, ""
	seen := map[string]bool{}
	var rec func(c *M, i int, path []string)
	rec = func(c *M, i int, path []string) {
		if s.States > s.MaxState {
			return
		}
		c.closure(s.MaxSteps)
		k := fmt.Sprintf("%d|%s", i, c.key())
		if seen[k] {
			return
		}
		seen[k] = true
		s.States++
		acts := c.actions()
		if i > best {
			best = i
			var as []string
			for _, a := range acts {
				as = append(as, fmt.Sprintf("%d:%d:%s", a.p, a.kind, c.procs[a.p].t.Op+" "+c.procs[a.p].t.Lbl))
			}
			bestDesc = fmt.Sprintf("reached prefix %d via %v\nactions %v\n%s", i, path, as, c.Describe())
		}
		for _, a := range acts {
			if a.kind == aPrint && (i >= len(sigma) || c.procs[a.p].t.Lbl != sigma[i]) {
				continue
			}
			d := c.clone()
			kinds := []string{"print", "copy", "split", "fwd", "drop"}
			step := fmt.Sprintf("%s(%v)", kinds[a.kind], c.procs[a.p].names)
			d.apply(a)
			ni := i
			if a.kind == aPrint {
				ni++
			}
			rec(d, ni, append(append([]string(nil), path...), step))
		}
	}
	c := m.clone()
	rec(c, 0, nil)
	return bestDesc
}

// AdmitsLazy: guided replay restricted to the lazy discipline (splits, drops, forwards and
// forced copies as soon as possible, optional copies never): only the choice between
// processes that could print the next label is searched. A positive answer is a witness
// run; a negative one says nothing about other copy timings.
func (m *M) AdmitsLazy(sigma []string, s *Search) bool {
	type mk struct {
		k string
		i int
	}
	memo := map[mk]bool{}
	var rec func(c *M, i int) bool
	rec = func(c *M, i int) bool {
		if s.Bounded {
			return false
		}
		// run everything that is not a print
		for {
			if !c.closure(s.MaxSteps) {
				s.Bounded = true
				return false
			}
			done := false
			for _, a := range c.actions() {
				if a.kind == aPrint || (a.kind == aCopy && !a.forced) {
					continue
				}
				c.apply(a)
				done = true
				break
			}
			if !done {
				break
			}
		}
		var prints []action
		for _, a := range c.actions() {
			if a.kind == aPrint {
				prints = append(prints, a)
			}
		}
		if i == len(sigma) {
			return len(prints) == 0
		}
		k := mk{c.key(), i}
		if r, ok := memo[k]; ok {
			return r
		}
		s.States++
		if s.States > s.MaxState {
			s.Bounded = true
			return false
		}
		res := false
		for _, a := range prints {
			if c.procs[a.p].t.Lbl != sigma[i] {
				continue
			}
			d := c.clone()
			d.apply(a)
			if rec(d, i+1) {
				res = true
				break
			}
		}
		memo[k] = res
		return res
	}
	c := m.clone()
	c.Prints = nil
	return rec(c, 0) && !s.Bounded
}
