// Package mut: single-edit mutants of generated programs (on the AST). R1 decides what the
// verdict on a mutant should be; mutants are only a source of diverse inputs.
package mut

import (
	"fmt"
	"math/rand"
	"strings"

	. "verif/ast"
	"verif/ref/typing"
)

type Mutant struct {
	P      *Program
	Op     string
	Family string // substructural | mode | typing | polarity | typedef
	Desc   string
}

type site struct {
	t     *Term
	where string
	live  []string // names free in the continuation(s) of t (in scope and still owed a use)
}

// sites lists every sub-term of the program with the names live after it.
func sites(p *Program) []site {
	var out []site
	var walk func(t *Term, where string)
	walk = func(t *Term, where string) {
		if t == nil {
			return
		}
		s := site{t: t, where: where}
		seen := map[string]bool{}
		add := func(c *Term) {
			if c == nil {
				return
			}
			for _, v := range FreeVars(c) {
				if !seen[v] {
					seen[v] = true
					s.live = append(s.live, v)
				}
			}
		}
		add(t.Cont)
		for _, b := range t.Brs {
			add(b.Body)
		}
		out = append(out, s)
		walk(t.Body, where)
		walk(t.Cont, where)
		for _, b := range t.Brs {
			walk(b.Body, where)
		}
	}
	for _, f := range p.Funcs {
		walk(f.Body, "fun "+f.Name)
	}
	for _, pr := range p.Procs {
		walk(pr.Body, fmt.Sprintf("prc %v", pr.Names))
	}
	return out
}

func pickSite(r *rand.Rand, ss []site, ok func(site) bool) *site {
	var c []int
	for i, s := range ss {
		if ok(s) {
			c = append(c, i)
		}
	}
	if len(c) == 0 {
		return nil
	}
	return &ss[c[r.Intn(len(c))]]
}

func others(live []string, not ...string) []string {
	var out []string
	for _, l := range live {
		skip := false
		for _, n := range not {
			if Base(n) == l {
				skip = true
			}
		}
		if !skip {
			out = append(out, l)
		}
	}
	return out
}

// renameFree renames free occurrences of name `from` to `to` in t (respecting binders).
func renameFree(t *Term, from, to string) {
	if t == nil {
		return
	}
	sub := func(n string) string {
		if Base(n) == from {
			return n[:len(n)-len(from)] + to
		}
		return n
	}
	switch t.Op {
	case "send":
		t.X, t.Y, t.Z = sub(t.X), sub(t.Y), sub(t.Z)
	case "recv", "split":
		t.X = sub(t.X)
		if Base(t.Y) != from && Base(t.Z) != from {
			renameFree(t.Cont, from, to)
		}
	case "sel", "cast":
		t.X, t.Y = sub(t.X), sub(t.Y)
	case "case":
		t.X = sub(t.X)
		for _, b := range t.Brs {
			if Base(b.Var) != from {
				renameFree(b.Body, from, to)
			}
		}
	case "new":
		renameFree(t.Body, from, to)
		if Base(t.Y) != from {
			renameFree(t.Cont, from, to)
		}
	case "call":
		for i := range t.Args {
			t.Args[i] = sub(t.Args[i])
		}
	case "close":
		t.X = sub(t.X)
	case "fwd":
		t.X, t.Y = sub(t.X), sub(t.Y)
	case "wait", "drop":
		t.X = sub(t.X)
		renameFree(t.Cont, from, to)
	case "shift":
		t.X = sub(t.X)
		if Base(t.Y) != from {
			renameFree(t.Cont, from, to)
		}
	case "print":
		renameFree(t.Cont, from, to)
	}
}

// Recolor changes the mode of the head region of t (up to the next shift) to m.
func Recolor(t *Ty, m Mode) {
	if t == nil {
		return
	}
	if t.IsShift() {
		t.M = m // the target mode of the shift belongs to the region
		return
	}
	t.M = m
	Recolor(t.L, m)
	Recolor(t.R, m)
	for _, b := range t.Br {
		Recolor(b.T, m)
	}
}

func otherMode(r *rand.Rand, m Mode) Mode {
	for {
		k := AllModes[r.Intn(4)]
		if k != m {
			return k
		}
	}
}

// replace overwrites *t by a copy of src (keeping the pointer identity of t).
func replace(t *Term, src *Term) { *t = *src }

type op struct {
	name, family string
	f            func(p *Program, r *rand.Rand, ss []site) string
}

var ops = []op{
	// ---------------- substructural
	{"delete-consumer", "substructural", func(p *Program, r *rand.Rand, ss []site) string {
		s := pickSite(r, ss, func(s site) bool { return s.t.Op == "wait" || s.t.Op == "drop" })
		if s == nil {
			return ""
		}
		d := fmt.Sprintf("delete '%s %s' in %s", s.t.Op, s.t.X, s.where)
		replace(s.t, s.t.Cont)
		return d
	}},
	{"duplicate-consumer", "substructural", func(p *Program, r *rand.Rand, ss []site) string {
		s := pickSite(r, ss, func(s site) bool { return s.t.Op == "wait" || s.t.Op == "drop" })
		if s == nil {
			return ""
		}
		c := *s.t
		s.t.Cont = &c
		return fmt.Sprintf("duplicate '%s %s' in %s", s.t.Op, s.t.X, s.where)
	}},
	{"wait-to-drop", "substructural", func(p *Program, r *rand.Rand, ss []site) string {
		s := pickSite(r, ss, func(s site) bool { return s.t.Op == "wait" })
		if s == nil {
			return ""
		}
		s.t.Op = "drop"
		return fmt.Sprintf("replace 'wait %s' by drop in %s", s.t.X, s.where)
	}},
	{"drop-instead-of-use", "substructural", func(p *Program, r *rand.Rand, ss []site) string {
		// drop a live name right before a form with a continuation; its later use is a second use
		s := pickSite(r, ss, func(s site) bool { return HasCont(s.t) && s.t.Op != "case" && s.t.Op != "new" && len(s.live) > 0 })
		if s == nil {
			return ""
		}
		x := s.live[r.Intn(len(s.live))]
		c := *s.t
		*s.t = Term{Op: "drop", X: x, Cont: &c}
		return fmt.Sprintf("insert 'drop %s' in %s", x, s.where)
	}},
	{"drop-then-skip", "substructural", func(p *Program, r *rand.Rand, ss []site) string {
		// replace a wait by a drop of the same name: legal only for weakenable modes
		s := pickSite(r, ss, func(s site) bool { return s.t.Op == "recv" && !IsSelf(s.t.X) })
		if s == nil {
			return ""
		}
		x := s.t.X
		s.t.Op, s.t.Y, s.t.Z = "drop", "", ""
		// the binders are gone: their uses become unbound -> only meaningful if they were dropped too; R1 decides
		return fmt.Sprintf("replace recv on %s by drop in %s", x, s.where)
	}},
	{"split-and-drop", "substructural", func(p *Program, r *rand.Rand, ss []site) string {
		s := pickSite(r, ss, func(s site) bool { return (s.t.Op == "wait" || s.t.Op == "case" || s.t.Op == "recv") && !IsSelf(s.t.X) })
		if s == nil {
			return ""
		}
		x := Base(s.t.X)
		c := *s.t
		c.X = "sq2"
		*s.t = Term{Op: "split", X: x, Y: "sq1", Z: "sq2", Cont: &Term{Op: "drop", X: "sq1", Cont: &c}}
		return fmt.Sprintf("split %s and drop one half in %s", x, s.where)
	}},
	{"split-use-both", "substructural", func(p *Program, r *rand.Rand, ss []site) string {
		s := pickSite(r, ss, func(s site) bool { return s.t.Op == "wait" })
		if s == nil {
			return ""
		}
		x := Base(s.t.X)
		cont := s.t.Cont
		*s.t = Term{Op: "split", X: x, Y: "sq1", Z: "sq2", Cont: &Term{Op: "wait", X: "sq1", Cont: &Term{Op: "wait", X: "sq2", Cont: cont}}}
		return fmt.Sprintf("split %s and wait for both halves in %s", x, s.where)
	}},
	{"binder-to-live-name", "substructural", func(p *Program, r *rand.Rand, ss []site) string {
		s := pickSite(r, ss, func(s site) bool {
			switch s.t.Op {
			case "recv", "split", "shift":
				return len(others(s.live, s.t.Y, s.t.Z)) > 0
			case "new":
				return len(others(s.live, s.t.Y)) > 0
			case "case":
				for _, b := range s.t.Brs {
					if len(others(FreeVars(b.Body), b.Var)) > 0 {
						return true
					}
				}
			}
			return false
		})
		if s == nil {
			return ""
		}
		t := s.t
		switch t.Op {
		case "recv", "split":
			live := others(s.live, t.Y, t.Z)
			z := live[r.Intn(len(live))]
			if r.Intn(2) == 0 {
				old := Base(t.Y)
				renameFree(t.Cont, old, "qq_tmp")
				t.Y = z
				renameFree(t.Cont, "qq_tmp", z)
				lastBinder = &t.Y
			} else {
				old := Base(t.Z)
				renameFree(t.Cont, old, "qq_tmp")
				t.Z = z
				renameFree(t.Cont, "qq_tmp", z)
				lastBinder = &t.Z
			}
			return fmt.Sprintf("%s binder renamed to live name %s in %s", t.Op, z, s.where)
		case "shift", "new":
			live := others(s.live, t.Y)
			z := live[r.Intn(len(live))]
			old := Base(t.Y)
			renameFree(t.Cont, old, "qq_tmp")
			t.Y = z
			renameFree(t.Cont, "qq_tmp", z)
			if t.Ann == nil { // the grammar has no polarity on an annotated cut binder
				lastBinder = &t.Y
			}
			return fmt.Sprintf("%s binder renamed to live name %s in %s", t.Op, z, s.where)
		case "case":
			var idx []int
			for i, b := range t.Brs {
				if len(others(FreeVars(b.Body), b.Var)) > 0 {
					idx = append(idx, i)
				}
			}
			i := idx[r.Intn(len(idx))]
			b := &t.Brs[i]
			live := others(FreeVars(b.Body), b.Var)
			z := live[r.Intn(len(live))]
			old := Base(b.Var)
			renameFree(b.Body, old, "qq_tmp")
			b.Var = z
			renameFree(b.Body, "qq_tmp", z)
			lastBinder = &b.Var
			return fmt.Sprintf("case binder renamed to live name %s in %s", z, s.where)
		}
		return ""
	}},
	{"binders-equal", "substructural", func(p *Program, r *rand.Rand, ss []site) string {
		s := pickSite(r, ss, func(s site) bool { return s.t.Op == "recv" || s.t.Op == "split" })
		if s == nil {
			return ""
		}
		old := Base(s.t.Z)
		renameFree(s.t.Cont, old, Base(s.t.Y))
		s.t.Z = s.t.Y
		return fmt.Sprintf("%s binds the same name twice in %s", s.t.Op, s.where)
	}},
	{"shadow-and-forget", "substructural", func(p *Program, r *rand.Rand, ss []site) string {
		// rename a binder to a live outer name AND delete that outer name's consumer in the
		// scope of the binder: the outer channel is silently discarded if the binder may shadow
		type cand struct {
			s    *site
			br   int
			cons *Term
		}
		var cs []cand
		for i := range ss {
			t := ss[i].t
			find := func(body *Term, binders ...string) *Term {
				var hit *Term
				Walk(body, func(x *Term) {
					if hit == nil && (x.Op == "wait" || x.Op == "drop") && !IsSelf(x.X) {
						for _, b := range binders {
							if Base(b) == Base(x.X) {
								return
							}
						}
						// must be free at t: not bound between t and x -> approximate with FreeVars
						for _, v := range FreeVars(body) {
							if v == Base(x.X) {
								hit = x
							}
						}
					}
				})
				return hit
			}
			switch t.Op {
			case "recv", "split":
				if c := find(t.Cont, t.Y, t.Z); c != nil {
					cs = append(cs, cand{&ss[i], -1, c})
				}
			case "shift", "new":
				if c := find(t.Cont, t.Y); c != nil {
					cs = append(cs, cand{&ss[i], -1, c})
				}
			case "case":
				for j, b := range t.Brs {
					if c := find(b.Body, b.Var); c != nil {
						cs = append(cs, cand{&ss[i], j, c})
					}
				}
			}
		}
		if len(cs) == 0 {
			return ""
		}
		c := cs[r.Intn(len(cs))]
		t := c.s.t
		z := Base(c.cons.X)
		replace(c.cons, c.cons.Cont)
		switch {
		case c.br >= 0:
			b := &t.Brs[c.br]
			old := Base(b.Var)
			renameFree(b.Body, old, z)
			b.Var = z
			lastBinder = &b.Var
		case (t.Op == "recv" || t.Op == "split") && r.Intn(2) == 0:
			old := Base(t.Z)
			renameFree(t.Cont, old, z)
			t.Z = z
			lastBinder = &t.Z
		case t.Op == "recv" || t.Op == "split":
			old := Base(t.Y)
			renameFree(t.Cont, old, z)
			t.Y = z
			lastBinder = &t.Y
		default:
			old := Base(t.Y)
			renameFree(t.Cont, old, z)
			t.Y = z
			if t.Ann == nil {
				lastBinder = &t.Y
			}
			if t.Op == "new" && t.Body != nil && t.Body.Op == "call" && r.Intn(2) == 0 {
				// ... and the call names its provider by that very name: x <- new f(x, a)
				inArgs := false
				for _, a := range t.Body.Args {
					if Base(a) == z {
						inArgs = true
					}
				}
				if !inArgs {
					cb := *t.Body
					args := cb.Args
					if f := p.FuncByName(cb.Fn); f != nil && len(args) == len(f.Params)+1 {
						args = args[1:]
					}
					cb.Args = append([]string{z}, args...)
					t.Body = &cb
					lastBinder = nil
					return fmt.Sprintf("cut binder renamed to %s (whose own consumer was deleted) and named as the provider argument of the call in %s", z, c.s.where)
				}
			}
		}
		return fmt.Sprintf("%s binder renamed to %s whose own consumer was deleted in %s", t.Op, z, c.s.where)
	}},
	{"binders-equal-forget", "substructural", func(p *Program, r *rand.Rand, ss []site) string {
		// <y,y> <- recv x with the consumer of the second component deleted
		var cs []*site
		var cons []*Term
		for i := range ss {
			t := ss[i].t
			if (t.Op == "recv" || t.Op == "split") && !IsSelf(t.X) {
				var hit *Term
				Walk(t.Cont, func(x *Term) {
					if hit == nil && (x.Op == "wait" || x.Op == "drop") && Base(x.X) == Base(t.Z) {
						hit = x
					}
				})
				if hit != nil {
					cs = append(cs, &ss[i])
					cons = append(cons, hit)
				}
			}
		}
		if len(cs) == 0 {
			return ""
		}
		k := r.Intn(len(cs))
		replace(cons[k], cons[k].Cont)
		cs[k].t.Z = cs[k].t.Y
		return fmt.Sprintf("%s binds one name twice and the second component is never used in %s", cs[k].t.Op, cs[k].where)
	}},
	{"call-argument-twice", "substructural", func(p *Program, r *rand.Rand, ss []site) string {
		// f(a, b) becomes drop b; f(a, a): one channel is handed over twice
		s := pickSite(r, ss, func(s site) bool { return s.t.Op == "call" && len(s.t.Args) >= 2 })
		if s == nil {
			return ""
		}
		args := append([]string(nil), s.t.Args...)
		i := r.Intn(len(args))
		j := (i + 1 + r.Intn(len(args)-1)) % len(args)
		// prefer two parameters of the same type, the dropped one weakenable
		if f := p.FuncByName(s.t.Fn); f != nil && len(f.Params) == len(args) {
			env := p.Env()
			var pairs [][2]int
			for a := range args {
				for b := range args {
					if a != b && Equal(f.Params[a].T, f.Params[b].T, env) && f.Params[b].T.M.Weaken() {
						pairs = append(pairs, [2]int{a, b})
					}
				}
			}
			if len(pairs) > 0 {
				k := pairs[r.Intn(len(pairs))]
				i, j = k[0], k[1]
			}
		}
		if IsSelf(args[i]) || IsSelf(args[j]) {
			return ""
		}
		old := args[j]
		args[j] = Base(args[i])
		c := *s.t
		c.Args = args
		*s.t = Term{Op: "drop", X: Base(old), Cont: &c}
		return fmt.Sprintf("call %s passes %s twice (and drops %s) in %s", c.Fn, Base(args[i]), Base(old), s.where)
	}},
	{"cut-binder-as-provider-argument", "substructural", func(p *Program, r *rand.Rand, ss []site) string {
		// y <- new f(a)  becomes  x <- new f(x, a)  for a live name x: the call names its
		// provider by the name the cut binds, which is also a channel still owed a use
		s := pickSite(r, ss, func(s site) bool {
			return s.t.Op == "new" && s.t.Body != nil && s.t.Body.Op == "call" && len(others(s.live, s.t.Y)) > 0
		})
		if s == nil {
			return ""
		}
		t := s.t
		live := others(s.live, t.Y)
		z := live[r.Intn(len(live))]
		for _, a := range t.Body.Args {
			if Base(a) == z {
				return ""
			}
		}
		old := Base(t.Y)
		renameFree(t.Cont, old, "qq_tmp")
		t.Y = z
		renameFree(t.Cont, "qq_tmp", z)
		c := *t.Body
		args := c.Args
		if f := p.FuncByName(c.Fn); f != nil && len(args) == len(f.Params)+1 {
			args = args[1:]
		}
		c.Args = append([]string{z}, args...)
		t.Body = &c
		return fmt.Sprintf("cut binder renamed to live name %s, which the call also names as its provider, in %s", z, s.where)
	}},
	{"binder-is-self", "substructural", func(p *Program, r *rand.Rand, ss []site) string {
		// a binder spelt 'self' (the grammar has self wherever a name can stand): the channel it
		// should bind is lost; the old uses of the binder now speak about the provider
		s := pickSite(r, ss, func(s site) bool {
			switch s.t.Op {
			case "recv", "split", "shift", "new", "case":
				return true
			}
			return false
		})
		if s == nil {
			return ""
		}
		t := s.t
		forget := func(body *Term, name string) {
			// with the binder gone, its consumer (if it is a plain wait / drop) goes too, half
			// of the time: the bound channel is then silently discarded
			if r.Intn(2) == 0 {
				return
			}
			var hit *Term
			Walk(body, func(x *Term) {
				if hit == nil && (x.Op == "wait" || x.Op == "drop") && Base(x.X) == name {
					hit = x
				}
			})
			if hit != nil {
				replace(hit, hit.Cont)
			}
		}
		switch t.Op {
		case "recv", "split":
			if r.Intn(2) == 0 {
				forget(t.Cont, Base(t.Y))
				t.Y = "self"
			} else {
				forget(t.Cont, Base(t.Z))
				t.Z = "self"
			}
		case "shift", "new":
			if t.Op == "new" && t.Ann != nil {
				return ""
			}
			forget(t.Cont, Base(t.Y))
			t.Y = "self"
		case "case":
			t.Brs = append([]CaseBr(nil), t.Brs...)
			i := r.Intn(len(t.Brs))
			forget(t.Brs[i].Body, Base(t.Brs[i].Var))
			t.Brs[i].Var = "self"
		}
		return fmt.Sprintf("a binder of %s is spelt self in %s", t.Op, s.where)
	}},
	{"multi-name", "substructural", func(p *Program, r *rand.Rand, ss []site) string {
		var c []*Proc
		for _, pr := range p.Procs {
			if len(pr.Names) == 1 && pr.Names[0] != "main" {
				c = append(c, pr)
			}
		}
		if len(c) == 0 {
			return ""
		}
		pr := c[r.Intn(len(c))]
		pr.Names = append(pr.Names, "extra_name")
		// somebody has to consume the extra name: main drops or ignores it; R1 decides
		return fmt.Sprintf("process %s gets a second provider name", pr.Names[0])
	}},
	// ---------------- mode
	{"mode-of-parameter", "mode", func(p *Program, r *rand.Rand, ss []site) string {
		var c [][2]int
		for i, f := range p.Funcs {
			for j := range f.Params {
				c = append(c, [2]int{i, j})
			}
		}
		if len(c) == 0 {
			return ""
		}
		k := c[r.Intn(len(c))]
		v := &p.Funcs[k[0]].Params[k[1]]
		v.T = v.T.Clone()
		m := otherMode(r, v.T.M)
		Recolor(v.T, m)
		return fmt.Sprintf("parameter %s of %s recoloured to %s", v.N, p.Funcs[k[0]].Name, m)
	}},
	{"mode-of-result", "mode", func(p *Program, r *rand.Rand, ss []site) string {
		if len(p.Funcs) == 0 {
			return ""
		}
		f := p.Funcs[r.Intn(len(p.Funcs))]
		f.Ret = f.Ret.Clone()
		m := otherMode(r, f.Ret.M)
		Recolor(f.Ret, m)
		return fmt.Sprintf("result of %s recoloured to %s", f.Name, m)
	}},
	{"mode-of-process", "mode", func(p *Program, r *rand.Rand, ss []site) string {
		if len(p.Procs) == 0 {
			return ""
		}
		pr := p.Procs[r.Intn(len(p.Procs))]
		pr.T = pr.T.Clone()
		m := otherMode(r, pr.T.M)
		Recolor(pr.T, m)
		return fmt.Sprintf("process %v recoloured to %s", pr.Names, m)
	}},
	{"mode-of-cut", "mode", func(p *Program, r *rand.Rand, ss []site) string {
		s := pickSite(r, ss, func(s site) bool { return s.t.Op == "new" && s.t.Ann != nil && s.t.Body.Op != "call" })
		if s == nil {
			return ""
		}
		s.t.Ann = s.t.Ann.Clone()
		m := otherMode(r, s.t.Ann.M)
		Recolor(s.t.Ann, m)
		return fmt.Sprintf("cut annotation of %s recoloured to %s in %s", s.t.Y, m, s.where)
	}},
	{"mode-in-uncalled-copy", "mode", func(p *Program, r *rand.Rand, ss []site) string {
		// a copy of a function, declared after the original and never called, whose signature
		// (one parameter, or everything including the cut annotations of its body) is recoloured:
		// the written types differ from the original's only in their mode annotations
		if len(p.Funcs) == 0 {
			return ""
		}
		f := p.Funcs[r.Intn(len(p.Funcs))]
		g := &Func{Name: f.Name + "cp", Ret: f.Ret.Clone(), Body: CloneTerm(f.Body), Prov: f.Prov}
		for _, v := range f.Params {
			g.Params = append(g.Params, Var{N: v.N, T: v.T.Clone()})
		}
		Walk(g.Body, func(t *Term) {
			if t.Op == "call" && t.Fn == f.Name {
				t.Fn = g.Name
			}
		})
		what := ""
		if len(g.Params) > 0 && r.Intn(2) == 0 {
			j := r.Intn(len(g.Params))
			m := otherMode(r, g.Params[j].T.M)
			Recolor(g.Params[j].T, m)
			what = fmt.Sprintf("parameter %s recoloured to %s", g.Params[j].N, m)
		} else {
			m := otherMode(r, g.Ret.M)
			Recolor(g.Ret, m)
			for j := range g.Params {
				Recolor(g.Params[j].T, m)
			}
			Walk(g.Body, func(t *Term) {
				if t.Op == "new" && t.Ann != nil {
					t.Ann = t.Ann.Clone()
					Recolor(t.Ann, m)
				}
			})
			what = fmt.Sprintf("whole signature and cut annotations recoloured to %s", m)
		}
		p.Funcs = append(p.Funcs, g)
		if p.Order != nil {
			p.Order = append(p.Order, Decl{"fun", len(p.Funcs) - 1})
		}
		return fmt.Sprintf("uncalled copy %s of %s: %s", g.Name, f.Name, what)
	}},
	{"mode-of-typedef", "mode", func(p *Program, r *rand.Rand, ss []site) string {
		if len(p.Types) == 0 {
			return ""
		}
		i := r.Intn(len(p.Types))
		p.Types[i].T = p.Types[i].T.Clone()
		m := otherMode(r, p.Types[i].T.M)
		Recolor(p.Types[i].T, m)
		return fmt.Sprintf("type %s recoloured to %s", p.Types[i].Name, m)
	}},
	{"shift-modes", "mode", func(p *Program, r *rand.Rand, ss []site) string {
		// change the source or target mode of a shift inside some type of the program
		var shifts []*Ty
		var collect func(t *Ty)
		collect = func(t *Ty) {
			if t == nil {
				return
			}
			if t.IsShift() {
				shifts = append(shifts, t)
			}
			collect(t.L)
			collect(t.R)
			for _, b := range t.Br {
				collect(b.T)
			}
		}
		for i := range p.Types {
			p.Types[i].T = p.Types[i].T.Clone()
			collect(p.Types[i].T)
		}
		for _, f := range p.Funcs {
			f.Ret = f.Ret.Clone()
			collect(f.Ret)
			for j := range f.Params {
				f.Params[j].T = f.Params[j].T.Clone()
				collect(f.Params[j].T)
			}
		}
		for _, pr := range p.Procs {
			pr.T = pr.T.Clone()
			collect(pr.T)
		}
		if len(shifts) == 0 {
			return ""
		}
		t := shifts[r.Intn(len(shifts))]
		if r.Intn(2) == 0 {
			m := otherMode(r, t.From)
			t.From = m
			Recolor(t.L, m)
			return fmt.Sprintf("shift source mode changed to %s", m)
		}
		m := otherMode(r, t.M)
		t.M = m
		return fmt.Sprintf("shift target mode changed to %s", m)
	}},
	{"flip-shift", "mode", func(p *Program, r *rand.Rand, ss []site) string {
		var shifts []*Ty
		var collect func(t *Ty)
		collect = func(t *Ty) {
			if t == nil {
				return
			}
			if t.IsShift() {
				shifts = append(shifts, t)
			}
			collect(t.L)
			collect(t.R)
			for _, b := range t.Br {
				collect(b.T)
			}
		}
		for i := range p.Types {
			p.Types[i].T = p.Types[i].T.Clone()
			collect(p.Types[i].T)
		}
		for _, pr := range p.Procs {
			pr.T = pr.T.Clone()
			collect(pr.T)
		}
		if len(shifts) == 0 {
			return ""
		}
		t := shifts[r.Intn(len(shifts))]
		if t.K == KUp {
			t.K = KDown
		} else {
			t.K = KUp
		}
		return "shift direction flipped"
	}},
	// ---------------- typing
	{"swap-payload-continuation", "typing", func(p *Program, r *rand.Rand, ss []site) string {
		s := pickSite(r, ss, func(s site) bool { return (s.t.Op == "send" && !IsSelf(s.t.Z)) || s.t.Op == "recv" })
		if s == nil {
			return ""
		}
		s.t.Y, s.t.Z = s.t.Z, s.t.Y
		return fmt.Sprintf("%s: payload and continuation swapped in %s", s.t.Op, s.where)
	}},
	{"change-label", "typing", func(p *Program, r *rand.Rand, ss []site) string {
		s := pickSite(r, ss, func(s site) bool { return s.t.Op == "sel" })
		if s == nil {
			return ""
		}
		labels := []string{"l0", "l1", "l2", "zero", "succ", "nil", "cons", "next", "stop", "nolabel"}
		for {
			l := labels[r.Intn(len(labels))]
			if l != s.t.Lbl {
				s.t.Lbl = l
				break
			}
		}
		return fmt.Sprintf("select label changed to %s in %s", s.t.Lbl, s.where)
	}},
	{"remove-branch", "typing", func(p *Program, r *rand.Rand, ss []site) string {
		s := pickSite(r, ss, func(s site) bool { return s.t.Op == "case" && len(s.t.Brs) > 1 })
		if s == nil {
			return ""
		}
		i := r.Intn(len(s.t.Brs))
		s.t.Brs = append(append([]CaseBr(nil), s.t.Brs[:i]...), s.t.Brs[i+1:]...)
		return fmt.Sprintf("case branch %d removed in %s", i, s.where)
	}},
	{"duplicate-branch", "typing", func(p *Program, r *rand.Rand, ss []site) string {
		s := pickSite(r, ss, func(s site) bool { return s.t.Op == "case" })
		if s == nil {
			return ""
		}
		b := s.t.Brs[r.Intn(len(s.t.Brs))]
		nb := CaseBr{Lbl: b.Lbl, Var: b.Var, Body: CloneTerm(b.Body)}
		if r.Intn(2) == 0 {
			nb.Lbl = "extra_label"
		}
		s.t.Brs = append(append([]CaseBr(nil), s.t.Brs...), nb)
		return fmt.Sprintf("case branch %s added in %s", nb.Lbl, s.where)
	}},
	{"relabel-branch", "typing", func(p *Program, r *rand.Rand, ss []site) string {
		s := pickSite(r, ss, func(s site) bool { return s.t.Op == "case" && len(s.t.Brs) > 1 })
		if s == nil {
			return ""
		}
		s.t.Brs = append([]CaseBr(nil), s.t.Brs...)
		i := r.Intn(len(s.t.Brs))
		j := (i + 1) % len(s.t.Brs)
		s.t.Brs[i].Lbl, s.t.Brs[j].Lbl = s.t.Brs[j].Lbl, s.t.Brs[i].Lbl
		return fmt.Sprintf("case branch labels %d and %d exchanged in %s", i, j, s.where)
	}},
	{"call-arity", "typing", func(p *Program, r *rand.Rand, ss []site) string {
		s := pickSite(r, ss, func(s site) bool { return s.t.Op == "call" })
		if s == nil {
			return ""
		}
		switch {
		case len(s.t.Args) > 0 && r.Intn(2) == 0:
			i := r.Intn(len(s.t.Args))
			s.t.Args = append(append([]string(nil), s.t.Args[:i]...), s.t.Args[i+1:]...)
			return fmt.Sprintf("call %s loses argument %d in %s", s.t.Fn, i, s.where)
		case len(s.live) > 0:
			s.t.Args = append(append([]string(nil), s.t.Args...), s.live[0])
		default:
			s.t.Args = append([]string{"self"}, s.t.Args...)
			return fmt.Sprintf("call %s gets an explicit self in %s", s.t.Fn, s.where)
		}
		return fmt.Sprintf("call %s arity changed in %s", s.t.Fn, s.where)
	}},
	{"call-swap-args", "typing", func(p *Program, r *rand.Rand, ss []site) string {
		s := pickSite(r, ss, func(s site) bool { return s.t.Op == "call" && len(s.t.Args) >= 2 })
		if s == nil {
			return ""
		}
		s.t.Args = append([]string(nil), s.t.Args...)
		i := r.Intn(len(s.t.Args) - 1)
		s.t.Args[i], s.t.Args[i+1] = s.t.Args[i+1], s.t.Args[i]
		return fmt.Sprintf("call %s arguments %d,%d swapped in %s", s.t.Fn, i, i+1, s.where)
	}},
	{"call-other-function", "typing", func(p *Program, r *rand.Rand, ss []site) string {
		s := pickSite(r, ss, func(s site) bool { return s.t.Op == "call" })
		if s == nil || len(p.Funcs) < 2 {
			return ""
		}
		for k := 0; k < 10; k++ {
			f := p.Funcs[r.Intn(len(p.Funcs))]
			if f.Name != s.t.Fn {
				old := s.t.Fn
				s.t.Fn = f.Name
				return fmt.Sprintf("call of %s replaced by %s in %s", old, f.Name, s.where)
			}
		}
		s.t.Fn = "nosuchfunction"
		return "call of an undefined function"
	}},
	{"annotation-other-type", "typing", func(p *Program, r *rand.Rand, ss []site) string {
		s := pickSite(r, ss, func(s site) bool { return s.t.Op == "new" && s.t.Ann != nil && s.t.Body.Op != "call" })
		if s == nil {
			return ""
		}
		m := s.t.Ann.M
		alts := []*Ty{Unit(m), Send(m, Unit(m), Unit(m)), Recv(m, Unit(m), Unit(m)), Plus(m, Branch{L: "l0", T: Unit(m)}), With(m, Branch{L: "l0", T: Unit(m)}, Branch{L: "l1", T: Unit(m)})}
		s.t.Ann = alts[r.Intn(len(alts))]
		return fmt.Sprintf("cut annotation of %s replaced by %s in %s", s.t.Y, s.t.Ann, s.where)
	}},
	{"annotation-deep-change", "typing", func(p *Program, r *rand.Rand, ss []site) string {
		// one difference somewhere inside a cut annotation / parameter / result type
		var slots []**Ty
		for _, s := range ss {
			if s.t.Op == "new" && s.t.Ann != nil && s.t.Body.Op != "call" {
				slots = append(slots, &s.t.Ann)
			}
		}
		for _, f := range p.Funcs {
			slots = append(slots, &f.Ret)
			for j := range f.Params {
				slots = append(slots, &f.Params[j].T)
			}
		}
		if len(slots) == 0 {
			return ""
		}
		slot := slots[r.Intn(len(slots))]
		t := (*slot).Clone()
		*slot = t
		var nodes []*Ty
		var collect func(x *Ty)
		collect = func(x *Ty) {
			if x == nil {
				return
			}
			nodes = append(nodes, x)
			collect(x.L)
			collect(x.R)
			for _, b := range x.Br {
				collect(b.T)
			}
		}
		collect(t)
		x := nodes[r.Intn(len(nodes))]
		m := x.M
		// re-association: (a o b) p c  <->  a o (b p c), the same sequence of operands and
		// operators with the brackets moved
		var rot []*Ty
		for _, n := range nodes {
			if (n.K == KSend || n.K == KRecv) && (n.L.K == KSend || n.L.K == KRecv || n.R.K == KSend || n.R.K == KRecv) {
				rot = append(rot, n)
			}
		}
		if len(rot) > 0 && r.Intn(3) == 0 {
			n := rot[r.Intn(len(rot))]
			if n.L.K == KSend || n.L.K == KRecv {
				l := n.L
				*n = Ty{K: l.K, M: n.M, L: l.L, R: &Ty{K: n.K, M: n.M, L: l.R, R: n.R}}
			} else {
				rr := n.R
				*n = Ty{K: rr.K, M: n.M, L: &Ty{K: n.K, M: n.M, L: n.L, R: rr.L}, R: rr.R}
			}
			return "brackets moved inside a type annotation / signature"
		}
		switch {
		case x.K == KUnit:
			x.K, x.L, x.R = KSend, Unit(m), Unit(m)
		case x.K == KName:
			x.K, x.Name = KUnit, ""
		case (x.K == KPlus || x.K == KWith) && len(x.Br) > 1 && r.Intn(2) == 0:
			x.Br = x.Br[:len(x.Br)-1]
		case x.K == KPlus || x.K == KWith:
			x.Br = append(x.Br, Branch{L: "extra", T: Unit(m)})
		case x.K == KSend:
			x.K = KRecv
		case x.K == KRecv:
			x.K = KSend
		default:
			x.L = Send(x.L.M, x.L, Unit(x.L.M))
		}
		return "one difference deep inside a type annotation / signature"
	}},
	{"drop-annotation", "typing", func(p *Program, r *rand.Rand, ss []site) string {
		s := pickSite(r, ss, func(s site) bool { return s.t.Op == "new" && s.t.Ann != nil && s.t.Body.Op != "call" })
		if s == nil {
			return ""
		}
		s.t.Ann = nil
		return fmt.Sprintf("cut annotation of %s removed in %s", s.t.Y, s.where)
	}},
	{"self-misuse", "typing", func(p *Program, r *rand.Rand, ss []site) string {
		s := pickSite(r, ss, func(s site) bool {
			switch s.t.Op {
			case "wait", "drop", "close", "fwd":
				return true
			}
			return false
		})
		if s == nil {
			return ""
		}
		switch s.t.Op {
		case "wait", "drop":
			s.t.X = "self"
		case "close":
			if len(s.live) > 0 {
				s.t.X = s.live[0]
			} else {
				s.t.X = "nosuchname"
			}
		case "fwd":
			s.t.X, s.t.Y = s.t.Y, s.t.X
		}
		return fmt.Sprintf("%s applied to the wrong side in %s", s.t.Op, s.where)
	}},
	{"rename-use", "typing", func(p *Program, r *rand.Rand, ss []site) string {
		// make one use refer to another live name (type confusion or double use)
		s := pickSite(r, ss, func(s site) bool {
			return (s.t.Op == "wait" || s.t.Op == "case" || s.t.Op == "recv" || s.t.Op == "shift") && !IsSelf(s.t.X) && len(others(s.live, s.t.X)) > 0
		})
		if s == nil {
			return ""
		}
		live := others(s.live, s.t.X)
		old := s.t.X
		s.t.X = live[r.Intn(len(live))]
		return fmt.Sprintf("%s on %s now on %s in %s", s.t.Op, old, s.t.X, s.where)
	}},
	{"typedef-constructor", "typedef", func(p *Program, r *rand.Rand, ss []site) string {
		if len(p.Types) == 0 {
			return ""
		}
		i := r.Intn(len(p.Types))
		t := p.Types[i].T.Clone()
		p.Types[i].T = t
		switch t.K {
		case KPlus:
			t.K = KWith
		case KWith:
			t.K = KPlus
		case KSend:
			t.K = KRecv
		case KRecv:
			t.K = KSend
		default:
			return ""
		}
		return fmt.Sprintf("type %s: head constructor dualised", p.Types[i].Name)
	}},
	{"typedef-duplicate-label", "typedef", func(p *Program, r *rand.Rand, ss []site) string {
		var c []int
		for i, td := range p.Types {
			if (td.T.K == KPlus || td.T.K == KWith) && len(td.T.Br) >= 2 {
				c = append(c, i)
			}
		}
		if len(c) == 0 {
			return ""
		}
		i := c[r.Intn(len(c))]
		t := p.Types[i].T.Clone()
		p.Types[i].T = t
		t.Br[1].L = t.Br[0].L
		return fmt.Sprintf("type %s: two branches share a label", p.Types[i].Name)
	}},
	{"typedef-undefined", "typedef", func(p *Program, r *rand.Rand, ss []site) string {
		if len(p.Types) == 0 {
			return ""
		}
		i := r.Intn(len(p.Types))
		t := p.Types[i].T.Clone()
		p.Types[i].T = t
		var names []*Ty
		var collect func(t *Ty)
		collect = func(t *Ty) {
			if t == nil {
				return
			}
			if t.K == KName {
				names = append(names, t)
			}
			collect(t.L)
			collect(t.R)
			for _, b := range t.Br {
				collect(b.T)
			}
		}
		collect(t)
		if len(names) == 0 {
			return ""
		}
		names[r.Intn(len(names))].Name = "undefinedT"
		return fmt.Sprintf("type %s refers to an undefined name", p.Types[i].Name)
	}},
	{"typedef-duplicate", "typedef", func(p *Program, r *rand.Rand, ss []site) string {
		if len(p.Types) == 0 {
			return ""
		}
		td := p.Types[r.Intn(len(p.Types))]
		p.Types = append(p.Types, TypeDef{Name: td.Name, T: td.T.Clone()})
		return fmt.Sprintf("type %s defined twice", td.Name)
	}},
	{"typedef-alias-cycle", "typedef", func(p *Program, r *rand.Rand, ss []site) string {
		if len(p.Types) == 0 {
			return ""
		}
		i := r.Intn(len(p.Types))
		m := p.Types[i].T.M
		k := 1 + r.Intn(3)
		// cycleN -> cycleN-1 -> ... -> type i -> cycleN
		name := p.Types[i].Name
		prev := name
		for j := 0; j < k; j++ {
			n := fmt.Sprintf("cyc%d", j)
			p.Types = append(p.Types, TypeDef{Name: n, T: Named(prev, m)})
			prev = n
		}
		p.Types[i].T = Named(prev, m)
		return fmt.Sprintf("type %s becomes part of an alias cycle of length %d", name, k+1)
	}},
	// ---------------- polarity
	{"flip-polarity", "polarity", func(p *Program, r *rand.Rand, ss []site) string {
		s := pickSite(r, ss, func(s site) bool {
			switch s.t.Op {
			case "wait", "drop", "close", "case", "recv", "shift", "split", "sel", "cast":
				return true
			}
			return false
		})
		if s == nil {
			return ""
		}
		pol := []string{"+", "-"}[r.Intn(2)]
		s.t.X = pol + Base(s.t.X)
		return fmt.Sprintf("explicit polarity %s put on %s of %s in %s", pol, Base(s.t.X), s.t.Op, s.where)
	}},
	{"polarity-on-payload", "polarity", func(p *Program, r *rand.Rand, ss []site) string {
		// an explicit polarity on a payload / continuation / bound name position
		s := pickSite(r, ss, func(s site) bool {
			switch s.t.Op {
			case "send", "sel", "cast", "recv", "split", "shift", "fwd":
				return true
			}
			return false
		})
		if s == nil {
			return ""
		}
		pol := []string{"+", "-"}[r.Intn(2)]
		t := s.t
		switch t.Op {
		case "send", "recv", "split":
			if r.Intn(2) == 0 && !IsSelf(t.Y) {
				t.Y = pol + Base(t.Y)
			} else if !IsSelf(t.Z) {
				t.Z = pol + Base(t.Z)
			} else {
				t.Y = pol + Base(t.Y)
			}
		default:
			if IsSelf(t.Y) {
				return ""
			}
			t.Y = pol + Base(t.Y)
		}
		return fmt.Sprintf("explicit polarity %s on a payload/continuation/binder of %s in %s", pol, t.Op, s.where)
	}},
	{"polarity-on-first-binder", "polarity", func(p *Program, r *rand.Rand, ss []site) string {
		// '<-a, b> <- recv x' / '<-a, b> <- split x' / 'l<-a> => ...': a mark right after '<'
		s := pickSite(r, ss, func(s site) bool { return s.t.Op == "recv" || s.t.Op == "split" || s.t.Op == "case" })
		if s == nil {
			return ""
		}
		pol := []string{"-", "-", "+"}[r.Intn(3)]
		if s.t.Op == "case" {
			s.t.Brs = append([]CaseBr(nil), s.t.Brs...)
			i := r.Intn(len(s.t.Brs))
			s.t.Brs[i].Var = pol + Base(s.t.Brs[i].Var)
		} else {
			s.t.Y = pol + Base(s.t.Y)
		}
		return fmt.Sprintf("explicit polarity %s on the first binder of %s in %s", pol, s.t.Op, s.where)
	}},
	{"polarity-on-argument", "polarity", func(p *Program, r *rand.Rand, ss []site) string {
		s := pickSite(r, ss, func(s site) bool { return s.t.Op == "call" && len(s.t.Args) > 0 })
		if s == nil {
			return ""
		}
		s.t.Args = append([]string(nil), s.t.Args...)
		i := r.Intn(len(s.t.Args))
		pol := []string{"+", "-"}[r.Intn(2)]
		s.t.Args[i] = pol + Base(s.t.Args[i])
		return fmt.Sprintf("explicit polarity %s on argument %d of %s in %s", pol, i, s.t.Fn, s.where)
	}},
	{"polarity-on-binder", "polarity", func(p *Program, r *rand.Rand, ss []site) string {
		s := pickSite(r, ss, func(s site) bool { return s.t.Op == "case" || (s.t.Op == "new" && s.t.Ann == nil) })
		if s == nil {
			return ""
		}
		pol := []string{"+", "-"}[r.Intn(2)]
		if s.t.Op == "new" {
			s.t.Y = pol + Base(s.t.Y)
		} else {
			s.t.Brs = append([]CaseBr(nil), s.t.Brs...)
			i := r.Intn(len(s.t.Brs))
			s.t.Brs[i].Var = pol + Base(s.t.Brs[i].Var)
		}
		return fmt.Sprintf("explicit polarity %s on a binder of %s in %s", pol, s.t.Op, s.where)
	}},
}

// Families lists the mutation families.
var Families = []string{"substructural", "mode", "typing", "typedef", "polarity"}

// Mutate applies one random operator of the given families ("" = any) to a clone of p.
func Mutate(p *Program, r *rand.Rand, families ...string) *Mutant {
	want := map[string]bool{}
	for _, f := range families {
		want[f] = true
	}
	for try := 0; try < 40; try++ {
		o := ops[r.Intn(len(ops))]
		if len(want) > 0 && !want[o.family] {
			continue
		}
		q := p.Clone()
		lastBinder = nil
		d := o.f(q, r, sites(q))
		if d == "" {
			continue
		}
		d += annotateBinder(q, r)
		return &Mutant{P: q, Op: o.name, Family: o.family, Desc: d}
	}
	return nil
}

// lastBinder points at the binder a substructural operator has just renamed.
var lastBinder *string

// annotateBinder gives the renamed binder, one time in three, an explicit polarity
// annotation that is correct for its type (the reference verdict must not change).
func annotateBinder(q *Program, r *rand.Rand) string {
	b := lastBinder
	lastBinder = nil
	if b == nil || r.Intn(3) != 0 || Pol(*b) != 0 {
		return ""
	}
	base := typing.Check(q)
	plain := *b
	signs := []string{"+", "-"}
	if r.Intn(2) == 0 {
		signs = []string{"-", "+"}
	}
	for _, sg := range signs {
		*b = sg + plain
		if v := typing.Check(q); v.Kind == base.Kind && v.Reason == base.Reason {
			return " (binder written " + *b + ")"
		}
	}
	*b = plain
	return ""
}

// OpNames lists all operators (for coverage reports).
func OpNames() []string {
	var out []string
	for _, o := range ops {
		out = append(out, o.name)
	}
	return out
}

// MutateOp applies the named operator (for inspection and for targeted workloads).
func MutateOp(p *Program, r *rand.Rand, name string) *Mutant {
	for _, o := range ops {
		if o.name != name {
			continue
		}
		for try := 0; try < 10; try++ {
			q := p.Clone()
			lastBinder = nil
			if d := o.f(q, r, sites(q)); d != "" {
				d += annotateBinder(q, r)
				return &Mutant{P: q, Op: o.name, Family: o.family, Desc: d}
			}
		}
	}
	return nil
}

// RecolorAll returns a copy of p in which every written type (definitions, signatures,
// process types, cut annotations) is recoloured to mode m.
func RecolorAll(p *Program, m Mode) *Program {
	q := p.Clone()
	for i := range q.Types {
		Recolor(q.Types[i].T, m)
	}
	re := func(t *Term) {
		Walk(t, func(x *Term) {
			if x.Op == "new" && x.Ann != nil {
				x.Ann = x.Ann.Clone()
				Recolor(x.Ann, m)
			}
		})
	}
	for _, f := range q.Funcs {
		Recolor(f.Ret, m)
		for j := range f.Params {
			Recolor(f.Params[j].T, m)
		}
		re(f.Body)
	}
	for _, pr := range q.Procs {
		Recolor(pr.T, m)
		re(pr.Body)
	}
	return q
}

// Compose returns the parallel composition of independent programs as one program: the
// k-th component's type names, function names, top-level process names and print labels get
// the suffix k (choice labels are local to types and stay). The components do not interact,
// so the composition is well typed iff every component is, and its printed multiset is the
// union of theirs. Declaration order: all types, all functions, all processes, all execs.
func Compose(ps []*Program) *Program {
	out := &Program{Feat: map[string]int{}}
	for k, p0 := range ps {
		p := p0.Clone()
		sfx := fmt.Sprintf("c%d", k)
		tmap := map[string]string{}
		for _, td := range p.Types {
			tmap[td.Name] = td.Name + sfx
		}
		var reTy func(t *Ty)
		reTy = func(t *Ty) {
			if t == nil {
				return
			}
			if t.K == KName {
				if n, ok := tmap[t.Name]; ok {
					t.Name = n
				}
			}
			reTy(t.L)
			reTy(t.R)
			for _, b := range t.Br {
				reTy(b.T)
			}
		}
		fmap := map[string]string{}
		for _, f := range p.Funcs {
			fmap[f.Name] = f.Name + sfx
		}
		reTerm := func(t *Term) {
			Walk(t, func(x *Term) {
				switch x.Op {
				case "call":
					if n, ok := fmap[x.Fn]; ok {
						x.Fn = n
					}
				case "print":
					x.Lbl = x.Lbl + sfx
				case "new":
					if x.Ann != nil {
						x.Ann = x.Ann.Clone()
						reTy(x.Ann)
					}
				}
			})
		}
		for i := range p.Types {
			reTy(p.Types[i].T)
			p.Types[i].Name = tmap[p.Types[i].Name]
			out.Types = append(out.Types, p.Types[i])
		}
		for _, f := range p.Funcs {
			f.Name = fmap[f.Name]
			reTy(f.Ret)
			for j := range f.Params {
				reTy(f.Params[j].T)
			}
			reTerm(f.Body)
			out.Funcs = append(out.Funcs, f)
		}
		var tops []string
		for _, pr := range p.Procs {
			tops = append(tops, pr.Names...)
		}
		execOff := len(out.Execs)
		for _, pr := range p.Procs {
			reTy(pr.T)
			reTerm(pr.Body)
			for _, n := range tops {
				renameFree(pr.Body, n, n+sfx)
			}
			// the i-th exec of this component is the (execOff+i)-th of the composition
			if execOff > 0 {
				for i := len(p.Execs); i >= 1; i-- {
					renameFree(pr.Body, fmt.Sprintf("exec%d", i), fmt.Sprintf("exec%d", execOff+i))
				}
			}
			for j := range pr.Names {
				pr.Names[j] += sfx
			}
			out.Procs = append(out.Procs, pr)
		}
		for _, e := range p.Execs {
			out.Execs = append(out.Execs, fmap[e])
		}
		for f, n := range p0.Feat {
			out.Feat[f] += n
		}
	}
	out.Feat["composed"] = len(ps)
	return out
}

// Inflate returns a copy of p made large in one respect without changing what it means:
//   alias-chain: one type definition is reached through a chain of 9..40 pure aliases
//   pad-types:   66..90 unused type definitions are declared first (recursive, unannotated ones among them)
//   pad-funcs:   33..45 unused functions are declared first
//   cut-chain:   the first process starts with a chain of 20..60 cuts of closed units, waited for (or dropped) in turn
//   long-names:  every function, type and top-level process name gets a 70..120 character suffix
//   many-params: a function with 9..14 parameters, called once by a new top-level process
// (typing, the printed labels and the outcome are unchanged; "" kind = random)
func Inflate(p *Program, r *rand.Rand, kind string) (*Program, string) {
	kinds := []string{"alias-chain", "alias-chain", "alias-chain", "pad-types", "pad-funcs", "cut-chain", "long-names", "many-params"}
	if kind == "" {
		kind = kinds[r.Intn(len(kinds))]
	}
	q := p.Clone()
	q.Order = nil
	switch kind {
	case "alias-chain":
		if len(q.Types) == 0 {
			return Inflate(p, r, "pad-types")
		}
		i := r.Intn(len(q.Types))
		td := q.Types[i]
		n := 9 + r.Intn(25)
		if r.Intn(3) > 0 {
			n = 34 + r.Intn(40)
		}
		m := td.T.M
		if td.T.IsShift() {
			return Inflate(p, r, "pad-types")
		}
		// half of the chains are written without mode annotations on the links (the mode is
		// inherited along the whole chain from its last definition)
		bare := r.Intn(2) == 0 && !td.Bare
		var chain []TypeDef
		name := func(j int) string { return fmt.Sprintf("%sZ%d", td.Name, j) }
		q.Types[i] = TypeDef{Name: td.Name, T: Named(name(1), m), Bare: bare}
		for j := 1; j < n; j++ {
			chain = append(chain, TypeDef{Name: name(j), T: Named(name(j+1), m), Bare: bare})
		}
		chain = append(chain, TypeDef{Name: name(n), T: td.T, Bare: td.Bare})
		if bare {
			// the uses of the name are written without a mode as well: their mode comes down
			// the whole chain
			strip := func(t *Ty) *Ty {
				if t != nil && t.K == KName && t.Name == td.Name && t.M == m { // only where inference gives back the recorded mode
					c := *t
					c.Bare = true
					return &c
				}
				return t
			}
			inTerm := func(t *Term) {
				Walk(t, func(x *Term) {
					if x.Op == "new" && x.Ann != nil {
						x.Ann = strip(x.Ann)
					}
				})
			}
			for _, f := range q.Funcs {
				f.Ret = strip(f.Ret)
				for j := range f.Params {
					f.Params[j].T = strip(f.Params[j].T)
				}
				inTerm(f.Body)
			}
			for _, pr := range q.Procs {
				pr.T = strip(pr.T)
				inTerm(pr.Body)
			}
		}
		if r.Intn(2) == 0 {
			q.Types = append(q.Types, chain...)
		} else {
			q.Types = append(chain, q.Types...)
		}
	case "pad-types":
		n := 66 + r.Intn(25)
		var pad []TypeDef
		for j := 0; j < n; j++ {
			m := AllModes[r.Intn(4)]
			nm := fmt.Sprintf("Pad%d", j)
			var t *Ty
			switch r.Intn(4) {
			case 0:
				t = Unit(m)
			case 1:
				t = Plus(m, Branch{L: "next", T: Named(nm, m)}, Branch{L: "stop", T: Unit(m)})
			case 2:
				t = Send(m, Unit(m), Named(nm, m))
			default:
				t = With(m, Branch{L: "go", T: Unit(m)})
			}
			pad = append(pad, TypeDef{Name: nm, T: t})
		}
		if r.Intn(3) == 0 {
			q.Types = append(q.Types, pad...)
		} else {
			q.Types = append(pad, q.Types...)
		}
	case "pad-funcs":
		n := 33 + r.Intn(13)
		var pad []*Func
		for j := 0; j < n; j++ {
			m := AllModes[r.Intn(4)]
			pad = append(pad, &Func{Name: fmt.Sprintf("padf%d", j), Params: []Var{{N: "x", T: Unit(m)}}, Ret: Unit(m), Body: &Term{Op: "wait", X: "x", Cont: &Term{Op: "close", X: "self"}}})
		}
		q.Funcs = append(pad, q.Funcs...)
	case "cut-chain":
		if len(q.Procs) == 0 {
			return Inflate(p, r, "pad-funcs")
		}
		pr := q.Procs[r.Intn(len(q.Procs))]
		m := pr.T.M
		n := 20 + r.Intn(41)
		body := pr.Body
		for j := n - 1; j >= 0; j-- {
			body = &Term{Op: "wait", X: fmt.Sprintf("cc%d", j), Cont: body}
		}
		for j := n - 1; j >= 0; j-- {
			body = &Term{Op: "new", Y: fmt.Sprintf("cc%d", j), Ann: Unit(m), Body: &Term{Op: "close", X: "self"}, Cont: body}
		}
		pr.Body = body
	case "long-names":
		sfx := "_" + strings.Repeat("long", 17+r.Intn(13))
		tm, fm := map[string]string{}, map[string]string{}
		for _, td := range q.Types {
			tm[td.Name] = td.Name + sfx
		}
		for _, f := range q.Funcs {
			fm[f.Name] = f.Name + sfx
		}
		var reTy func(t *Ty)
		reTy = func(t *Ty) {
			if t == nil {
				return
			}
			if t.K == KName {
				if n, ok := tm[t.Name]; ok {
					t.Name = n
				}
			}
			reTy(t.L)
			reTy(t.R)
			for _, b := range t.Br {
				reTy(b.T)
			}
		}
		reTerm := func(t *Term) {
			Walk(t, func(x *Term) {
				if x.Op == "call" {
					if n, ok := fm[x.Fn]; ok {
						x.Fn = n
					}
				}
				if x.Op == "new" && x.Ann != nil {
					x.Ann = x.Ann.Clone()
					reTy(x.Ann)
				}
			})
		}
		for i := range q.Types {
			reTy(q.Types[i].T)
			q.Types[i].Name = tm[q.Types[i].Name]
		}
		for _, f := range q.Funcs {
			f.Name = fm[f.Name]
			reTy(f.Ret)
			for j := range f.Params {
				reTy(f.Params[j].T)
			}
			reTerm(f.Body)
		}
		var tops []string
		for _, pr := range q.Procs {
			tops = append(tops, pr.Names...)
		}
		for _, pr := range q.Procs {
			reTy(pr.T)
			reTerm(pr.Body)
			for _, n := range tops {
				renameFree(pr.Body, n, n+sfx)
			}
			for j := range pr.Names {
				pr.Names[j] += sfx
			}
		}
		for i, e := range q.Execs {
			q.Execs[i] = fm[e]
		}
	case "many-params":
		n := 9 + r.Intn(6)
		m := Rep
		if len(q.Procs) > 0 {
			m = q.Procs[0].T.M
		}
		f := &Func{Name: "manyp", Ret: Unit(m)}
		body := &Term{Op: "print", Lbl: "manypran", Cont: &Term{Op: "close", X: "self"}}
		for j := n - 1; j >= 0; j-- {
			body = &Term{Op: "wait", X: fmt.Sprintf("mp%d", j), Cont: body}
		}
		call := &Term{Op: "call", Fn: "manyp"}
		for j := 0; j < n; j++ {
			f.Params = append(f.Params, Var{N: fmt.Sprintf("mp%d", j), T: Unit(m)})
			call.Args = append(call.Args, fmt.Sprintf("ma%d", j))
		}
		f.Body = body
		var top *Term = call
		for j := n - 1; j >= 0; j-- {
			top = &Term{Op: "new", Y: fmt.Sprintf("ma%d", j), Ann: Unit(m), Body: &Term{Op: "close", X: "self"}, Cont: top}
		}
		q.Funcs = append(q.Funcs, f)
		q.Procs = append(q.Procs, &Proc{Names: []string{"manypuser"}, T: Unit(m), Body: top})
		if n >= 10 {
			// a second function whose name is the first one's followed by the leading digit of
			// its arity: manyp with 1x parameters next to manyp1 with x parameters
			g := &Func{Name: "manyp1", Ret: Unit(m)}
			gb := &Term{Op: "print", Lbl: "manyp1ran", Cont: &Term{Op: "close", X: "self"}}
			call1 := &Term{Op: "call", Fn: "manyp1"}
			var top1 *Term = call1
			for j := n - 10 - 1; j >= 0; j-- {
				gb = &Term{Op: "wait", X: fmt.Sprintf("mq%d", j), Cont: gb}
			}
			for j := 0; j < n-10; j++ {
				g.Params = append(g.Params, Var{N: fmt.Sprintf("mq%d", j), T: Unit(m)})
				call1.Args = append(call1.Args, fmt.Sprintf("mb%d", j))
			}
			for j := n - 10 - 1; j >= 0; j-- {
				top1 = &Term{Op: "new", Y: fmt.Sprintf("mb%d", j), Ann: Unit(m), Body: &Term{Op: "close", X: "self"}, Cont: top1}
			}
			g.Body = gb
			q.Funcs = append(q.Funcs, g)
			q.Procs = append(q.Procs, &Proc{Names: []string{"manyp1user"}, T: Unit(m), Body: top1})
		}
	}
	q.Feat = map[string]int{}
	for k, v := range p.Feat {
		q.Feat[k] = v
	}
	q.Feat["inflated-"+kind]++
	return q, kind
}
