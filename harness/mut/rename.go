package mut

import (
	"fmt"
	"math/rand"
	"sort"

	. "verif/ast"
)

// Metamorphic transforms M: consistent renamings (benign and adversarial) and
// permutations. A transformed program is the same program up to alpha-equivalence, so its
// verdict and outcome must be the same (labels mapped).

type Renaming struct {
	Labels map[string]string // print and choice labels: old -> new
}

type renamer struct {
	r       *rand.Rand
	adv     bool
	greedy  bool
	pool    []string
	fresh   int
	funcs   map[string]string
	types   map[string]string
	labels  map[string]string
	tops    map[string]string
}

func (rn *renamer) pick(avoid map[string]bool, old string) string {
	if rn.adv && rn.greedy {
		// always the first free pool name: most channels end up with the same identifier
		for _, n := range rn.pool {
			if !avoid[n] {
				return n
			}
		}
	} else if rn.adv {
		for _, i := range rn.r.Perm(len(rn.pool)) {
			if !avoid[rn.pool[i]] {
				return rn.pool[i]
			}
		}
	}
	for {
		rn.fresh++
		n := fmt.Sprintf("n%d_%s", rn.fresh, old)
		if rn.adv {
			n = fmt.Sprintf("w%d", rn.fresh)
		}
		if !avoid[n] {
			return n
		}
	}
}

func (rn *renamer) label(l string) string {
	if n, ok := rn.labels[l]; ok {
		return n
	}
	n := "k" + l
	rn.labels[l] = n
	return n
}

func (rn *renamer) ty(t *Ty) *Ty {
	if t == nil {
		return nil
	}
	c := *t
	c.L, c.R = rn.ty(t.L), rn.ty(t.R)
	if t.K == KName {
		if n, ok := rn.types[t.Name]; ok {
			c.Name = n
		}
	}
	if t.Br != nil {
		c.Br = make([]Branch, len(t.Br))
		for i, b := range t.Br {
			c.Br[i] = Branch{L: rn.label(b.L), T: rn.ty(b.T)}
		}
	}
	return &c
}

func withPol(orig, base string) string {
	switch Pol(orig) {
	case 1:
		return "+" + base
	case -1:
		return "-" + base
	}
	return base
}

// term renames a body. env maps in-scope old names to new names; alias is the new name of
// the scoped provider alias ("" if none).
func (rn *renamer) term(t *Term, env map[string]string, alias string) *Term {
	if t == nil {
		return nil
	}
	use := func(n string) string {
		b := Base(n)
		if b == "self" || b == "" {
			return n
		}
		if m, ok := env[b]; ok {
			return withPol(n, m)
		}
		return n
	}
	ext := func(kv ...string) map[string]string {
		e := make(map[string]string, len(env)+2)
		for k, v := range env {
			e[k] = v
		}
		for i := 0; i < len(kv); i += 2 {
			e[kv[i]] = kv[i+1]
		}
		return e
	}
	// names that must stay distinct from a new binder: images of everything still owed a use
	avoidFor := func(conts []*Term, binders ...string) map[string]bool {
		av := map[string]bool{}
		if alias != "" {
			av[alias] = true
		}
		for _, c := range conts {
			for _, v := range FreeVars(c) {
				skip := false
				for _, b := range binders {
					if Base(b) == v {
						skip = true
					}
				}
				if skip {
					continue
				}
				if m, ok := env[v]; ok {
					av[m] = true
				} else {
					av[v] = true
				}
			}
		}
		return av
	}
	c := *t
	switch t.Op {
	case "send":
		c.X, c.Y, c.Z = use(t.X), use(t.Y), use(t.Z)
	case "sel", "cast", "fwd":
		c.X, c.Y = use(t.X), use(t.Y)
		if t.Op == "sel" {
			c.Lbl = rn.label(t.Lbl)
		}
	case "close":
		c.X = use(t.X)
	case "call":
		c.Fn = rn.funcs[t.Fn]
		if c.Fn == "" {
			c.Fn = t.Fn
		}
		c.Args = make([]string, len(t.Args))
		for i, a := range t.Args {
			c.Args[i] = use(a)
		}
	case "wait", "drop":
		c.X = use(t.X)
		c.Cont = rn.term(t.Cont, env, alias)
	case "print":
		c.Lbl = rn.label(t.Lbl)
		c.Cont = rn.term(t.Cont, env, alias)
	case "recv", "split":
		c.X = use(t.X)
		av := avoidFor([]*Term{t.Cont}, t.Y, t.Z)
		ny := rn.pick(av, Base(t.Y))
		av[ny] = true
		nz := rn.pick(av, Base(t.Z))
		c.Y, c.Z = withPol(t.Y, ny), withPol(t.Z, nz)
		na := alias
		if t.Op == "recv" && IsSelfOrAlias(t.X, env, alias) {
			na = nz
		}
		c.Cont = rn.term(t.Cont, ext(Base(t.Y), ny, Base(t.Z), nz), na)
	case "shift":
		c.X = use(t.X)
		av := avoidFor([]*Term{t.Cont}, t.Y)
		ny := rn.pick(av, Base(t.Y))
		c.Y = withPol(t.Y, ny)
		na := alias
		if IsSelfOrAlias(t.X, env, alias) {
			na = ny
		}
		c.Cont = rn.term(t.Cont, ext(Base(t.Y), ny), na)
	case "case":
		c.X = use(t.X)
		onSelf := IsSelfOrAlias(t.X, env, alias)
		c.Brs = make([]CaseBr, len(t.Brs))
		for i, b := range t.Brs {
			av := avoidFor([]*Term{b.Body}, b.Var)
			nv := rn.pick(av, Base(b.Var))
			na := alias
			if onSelf {
				na = nv
			}
			c.Brs[i] = CaseBr{Lbl: rn.label(b.Lbl), Var: withPol(b.Var, nv), Body: rn.term(b.Body, ext(Base(b.Var), nv), na)}
		}
	case "new":
		av := avoidFor([]*Term{t.Cont, t.Body}, t.Y)
		for _, v := range FreeVars(t.Body) {
			if m, ok := env[v]; ok {
				av[m] = true
			}
		}
		ny := rn.pick(av, Base(t.Y))
		c.Y = withPol(t.Y, ny)
		if t.Ann != nil {
			c.Ann = rn.ty(t.Ann)
		}
		c.Body = rn.term(t.Body, env, "")
		c.Cont = rn.term(t.Cont, ext(Base(t.Y), ny), alias)
	}
	return &c
}

// IsSelfOrAlias: does name n (old spelling) denote the provider?
func IsSelfOrAlias(n string, env map[string]string, alias string) bool {
	b := Base(n)
	if b == "self" {
		return true
	}
	if m, ok := env[b]; ok && alias != "" && m == alias {
		return true
	}
	return false
}

// Rename returns an alpha-equivalent copy of p. adversarial draws bound names from a pool
// of three identifiers (maximising coincidences across scopes, never capturing).
func Rename(p *Program, r *rand.Rand, adversarial bool) (*Program, *Renaming) {
	rn := &renamer{r: r, adv: adversarial, greedy: adversarial && r.Intn(2) == 0, pool: []string{"x", "y", "z"}, funcs: map[string]string{}, types: map[string]string{}, labels: map[string]string{}, tops: map[string]string{}}
	for i, f := range p.Funcs {
		rn.funcs[f.Name] = fmt.Sprintf("fn%d%s", i, map[bool]string{true: "x", false: "_r"}[adversarial])
	}
	for i, td := range p.Types {
		if _, dup := rn.types[td.Name]; !dup {
			rn.types[td.Name] = fmt.Sprintf("Ty%d", i)
		}
	}
	// top-level provider names: in adversarial mode they also come from the pool when possible
	topAvoid := map[string]bool{}
	for _, pr := range p.Procs {
		for _, n := range pr.Names {
			nn := rn.pick(topAvoid, n)
			topAvoid[nn] = true
			rn.tops[n] = nn
		}
	}
	q := &Program{Feat: p.Feat, Execs: nil}
	for _, td := range p.Types {
		q.Types = append(q.Types, TypeDef{Name: rn.types[td.Name], T: rn.ty(td.T), Bare: td.Bare})
	}
	for _, f := range p.Funcs {
		g := &Func{Name: rn.funcs[f.Name], Ret: rn.ty(f.Ret)}
		env := map[string]string{}
		av := map[string]bool{}
		alias := ""
		if f.Prov != "" {
			g.Prov = rn.pick(av, f.Prov)
			av[g.Prov] = true
			env[f.Prov] = g.Prov
			// the explicit provider name is self everywhere in the body (also in spawned bodies):
			// keep it out of every scope by never reusing it
			rn.poolBlock(g.Prov)
		}
		for _, v := range f.Params {
			nn := rn.pick(av, v.N)
			av[nn] = true
			env[v.N] = nn
			g.Params = append(g.Params, Var{N: nn, T: rn.ty(v.T)})
		}
		g.Body = rn.term(f.Body, env, alias)
		if f.Prov != "" {
			rn.poolUnblock()
		}
		q.Funcs = append(q.Funcs, g)
	}
	for _, pr := range p.Procs {
		np := &Proc{T: rn.ty(pr.T)}
		for _, n := range pr.Names {
			np.Names = append(np.Names, rn.tops[n])
		}
		env := map[string]string{}
		for k, v := range rn.tops {
			env[k] = v
		}
		np.Body = rn.term(pr.Body, env, "")
		q.Procs = append(q.Procs, np)
	}
	for _, e := range p.Execs {
		q.Execs = append(q.Execs, rn.funcs[e])
	}
	if p.Order != nil {
		q.Order = append([]Decl(nil), p.Order...)
	}
	return q, &Renaming{Labels: rn.labels}
}

var savedPool []string

func (rn *renamer) poolBlock(name string) {
	savedPool = rn.pool
	var np []string
	for _, n := range rn.pool {
		if n != name {
			np = append(np, n)
		}
	}
	rn.pool = np
}
func (rn *renamer) poolUnblock() { rn.pool = savedPool }

// Permute returns a copy of p with the top-level declarations in random order and the
// branches of every case shuffled.
func Permute(p *Program, r *rand.Rand) *Program {
	q := p.Clone()
	d := q.Decls()
	r.Shuffle(len(d), func(i, j int) { d[i], d[j] = d[j], d[i] })
	// exec declarations are numbered in order of appearance: keep their relative order
	var execs []int
	for i, x := range d {
		if x.Kind == "exec" {
			execs = append(execs, i)
		}
	}
	var ex []Decl
	for _, i := range execs {
		ex = append(ex, d[i])
	}
	sort.Slice(ex, func(i, j int) bool { return ex[i].Idx < ex[j].Idx })
	for k, i := range execs {
		d[i] = ex[k]
	}
	q.Order = d
	shuffleBranches := func(t *Term) {
		Walk(t, func(x *Term) {
			if x.Op == "case" && len(x.Brs) > 1 {
				r.Shuffle(len(x.Brs), func(i, j int) { x.Brs[i], x.Brs[j] = x.Brs[j], x.Brs[i] })
			}
		})
	}
	for _, f := range q.Funcs {
		shuffleBranches(f.Body)
	}
	for _, pr := range q.Procs {
		shuffleBranches(pr.Body)
	}
	return q
}
