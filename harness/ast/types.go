// Package ast is the harness' own representation of Grits programs: session types
// with a mode on every node, process terms, and whole programs with a printer to
// Grits concrete syntax. It shares no code with Grits.
package ast

import (
	"fmt"
	"strings"
)

type Mode int

const (
	Rep Mode = iota
	Mul
	Aff
	Lin
	NoMode Mode = -1
)

var modeStr = []string{"rep", "mul", "aff", "lin"}

var AllModes = []Mode{Rep, Mul, Aff, Lin}

func (m Mode) String() string {
	if m < 0 || int(m) >= len(modeStr) {
		return "unset"
	}
	return modeStr[m]
}

// Geq: m >= k in the adjoint preorder (m can be down-shifted to k). Written from
// the statement of C17: rep on top, lin at the bottom, mul and aff incomparable.
func Geq(m, k Mode) bool {
	return m == k || m == Rep || k == Lin
}
func (m Mode) Weaken() bool   { return m == Rep || m == Aff }
func (m Mode) Contract() bool { return m == Rep || m == Mul }

type Kind int

const (
	KUnit Kind = iota
	KSend
	KRecv
	KPlus
	KWith
	KUp
	KDown
	KName
)

var kindStr = []string{"1", "*", "-*", "+", "&", "/\\", "\\/", "name"}

func (k Kind) String() string { return kindStr[k] }

type Branch struct {
	L string
	T *Ty
}

// Ty is a session type with a mode on every node. For KUp/KDown, M is the mode of the
// shift itself (its target mode) and From is the mode of the continuation L.
type Ty struct {
	K    Kind
	M    Mode
	L, R *Ty // Send/Recv: L payload, R continuation; Up/Down: L continuation
	Br   []Branch
	From Mode
	Name string
	Bare bool // the head mode annotation is not written (see BareHeads)
}

func Unit(m Mode) *Ty                { return &Ty{K: KUnit, M: m} }
func Named(n string, m Mode) *Ty     { return &Ty{K: KName, M: m, Name: n} }
func Send(m Mode, l, r *Ty) *Ty      { return &Ty{K: KSend, M: m, L: l, R: r} }
func Recv(m Mode, l, r *Ty) *Ty      { return &Ty{K: KRecv, M: m, L: l, R: r} }
func Plus(m Mode, br ...Branch) *Ty  { return &Ty{K: KPlus, M: m, Br: br} }
func With(m Mode, br ...Branch) *Ty  { return &Ty{K: KWith, M: m, Br: br} }
func Up(from, to Mode, c *Ty) *Ty    { return &Ty{K: KUp, M: to, From: from, L: c} }
func Down(from, to Mode, c *Ty) *Ty  { return &Ty{K: KDown, M: to, From: from, L: c} }
func (t *Ty) IsShift() bool          { return t.K == KUp || t.K == KDown }
func (t *Ty) Lookup(l string) *Ty {
	for _, b := range t.Br {
		if b.L == l {
			return b.T
		}
	}
	return nil
}

type Env map[string]*Ty

// Unfold follows name references; returns nil for an undefined name or after more
// steps than there are definitions (non-contractive cycle).
func Unfold(t *Ty, env Env) *Ty {
	for i := 0; t != nil && t.K == KName; i++ {
		if i > len(env) {
			return nil
		}
		t = env[t.Name]
	}
	return t
}

func Positive(t *Ty, env Env) bool {
	u := Unfold(t, env)
	switch u.K {
	case KUnit, KSend, KPlus, KDown:
		return true
	}
	return false
}

// Inner prints the type without a head mode annotation. Binary and shift operands are
// parenthesised on both sides, so the text is unambiguous whatever the parser's
// associativity (Grits' own printer is what C15 checks, not this one).
func (t *Ty) Inner() string {
	switch t.K {
	case KUnit:
		return "1"
	case KName:
		return t.Name
	case KSend:
		return paren(t.L) + " * " + paren(t.R)
	case KRecv:
		return paren(t.L) + " -* " + paren(t.R)
	case KPlus, KWith:
		var b []string
		for _, br := range t.Br {
			b = append(b, fmt.Sprintf("%s : %s", br.L, br.T.Inner()))
		}
		s := "+{"
		if t.K == KWith {
			s = "&{"
		}
		return s + strings.Join(b, ", ") + "}"
	case KUp:
		return fmt.Sprintf("%s /\\ %s %s", t.From, t.M, paren(t.L))
	case KDown:
		return fmt.Sprintf("%s \\/ %s %s", t.From, t.M, paren(t.L))
	}
	panic("kind")
}

func paren(t *Ty) string {
	switch t.K {
	case KSend, KRecv, KUp, KDown:
		return "(" + t.Inner() + ")"
	}
	return t.Inner()
}

// String prints with an explicit head mode annotation (omitted for shifts, whose mode is
// explicit in the shift itself).
func (t *Ty) String() string {
	if t.IsShift() || t.Bare {
		return t.Inner()
	}
	return t.M.String() + " " + t.Inner()
}

// Key is a structural key with every mode spelled out (for maps; not Grits syntax).
func (t *Ty) Key() string {
	switch t.K {
	case KUnit:
		return "1@" + t.M.String()
	case KName:
		return t.Name + "@" + t.M.String()
	case KSend, KRecv:
		return "(" + t.L.Key() + " " + t.K.String() + "@" + t.M.String() + " " + t.R.Key() + ")"
	case KPlus, KWith:
		var b []string
		for _, br := range t.Br {
			b = append(b, br.L+":"+br.T.Key())
		}
		return t.K.String() + "@" + t.M.String() + "{" + strings.Join(b, ",") + "}"
	default:
		return "(" + t.From.String() + t.K.String() + t.M.String() + " " + t.L.Key() + ")"
	}
}

// Equal: equality of infinite unfoldings (coinductive), branch order irrelevant,
// modes and shift modes significant. Pairs are remembered by node identity.
func Equal(a, b *Ty, env Env) bool {
	return eq(a, b, env, map[[2]*Ty]bool{})
}

func eq(a, b *Ty, env Env, seen map[[2]*Ty]bool) bool {
	if a == nil || b == nil {
		return false
	}
	if a.K == KName && b.K == KName && a.Name == b.Name {
		return a.M == b.M
	}
	k := [2]*Ty{a, b}
	if seen[k] {
		return true
	}
	seen[k] = true
	if a.K == KName || b.K == KName {
		// a reference carries the mode of the definition it points to
		ua, ub := a, b
		if a.K == KName {
			ua = env[a.Name]
			if ua == nil || Unfold(ua, env) == nil || Unfold(ua, env).M != a.M {
				return false
			}
		}
		if b.K == KName {
			ub = env[b.Name]
			if ub == nil || Unfold(ub, env) == nil || Unfold(ub, env).M != b.M {
				return false
			}
		}
		return eq(ua, ub, env, seen)
	}
	if a.K != b.K || a.M != b.M {
		return false
	}
	switch a.K {
	case KUnit:
		return true
	case KSend, KRecv:
		return eq(a.L, b.L, env, seen) && eq(a.R, b.R, env, seen)
	case KUp, KDown:
		return a.From == b.From && eq(a.L, b.L, env, seen)
	case KPlus, KWith:
		if len(a.Br) != len(b.Br) {
			return false
		}
		for _, x := range a.Br {
			y := b.Lookup(x.L)
			if y == nil || !eq(x.T, y, env, seen) {
				return false
			}
		}
		return true
	}
	return false
}

// Clone deep-copies a type tree (names stay references).
func (t *Ty) Clone() *Ty {
	if t == nil {
		return nil
	}
	c := *t
	c.L, c.R = t.L.Clone(), t.R.Clone()
	if t.Br != nil {
		c.Br = make([]Branch, len(t.Br))
		for i, b := range t.Br {
			c.Br[i] = Branch{b.L, b.T.Clone()}
		}
	}
	return &c
}
