package ast

import (
	"math/rand"
	"sort"
)

// BareHeads returns a copy of p in which head mode annotations of written types (process
// types, signatures, cut annotations, type definitions) are omitted, each with probability
// pct/100, wherever Grits' documented inference recovers the very same mode: an unannotated
// type takes the first mode found in its components, left to right (a type name contributes
// the mode of its definition, a shift its target mode, each definition is explored once);
// when nothing is found the default mode (replicable) applies. The meaning of the program
// is unchanged by construction: a head is omitted only if the inferred mode equals the mode
// recorded in the tree.
func BareHeads(p *Program, r *rand.Rand, pct int) (*Program, int) {
	q := p.Clone()
	env := map[string]*Ty{}
	bare := map[string]bool{}
	dup := map[string]bool{}
	for _, td := range q.Types {
		if _, ok := env[td.Name]; ok {
			dup[td.Name] = true
		}
		env[td.Name] = td.T
		bare[td.Name] = td.Bare
	}
	if len(dup) > 0 {
		return q, 0 // ill-formed definitions: leave the text alone
	}
	var infer func(t *Ty, seen map[string]bool) Mode
	comps := func(t *Ty, seen map[string]bool) Mode {
		switch t.K {
		case KSend, KRecv:
			if m := infer(t.L, seen); m != NoMode {
				return m
			}
			return infer(t.R, seen)
		case KPlus, KWith:
			for _, b := range t.Br {
				if m := infer(b.T, seen); m != NoMode {
					return m
				}
			}
		}
		return NoMode
	}
	infer = func(t *Ty, seen map[string]bool) Mode {
		if t == nil {
			return NoMode
		}
		switch t.K {
		case KUnit:
			return NoMode
		case KUp, KDown:
			return t.M
		case KName:
			d := env[t.Name]
			if d == nil || seen[t.Name] {
				return NoMode
			}
			seen[t.Name] = true
			if d.IsShift() || !bare[t.Name] {
				return d.M
			}
			return infer(d, seen) // a bare definition: its components, or the name it is an alias of
		}
		return comps(t, seen)
	}
	// the mode Grits gives to t when its head annotation is left out
	headless := func(t *Ty) Mode {
		if m := infer(t, map[string]bool{}); m != NoMode {
			return m
		}
		return Rep
	}
	defMode := func(td *TypeDef) Mode {
		if m := infer(td.T, map[string]bool{}); m != NoMode {
			return m
		}
		return Rep
	}
	n := 0
	try := func(t *Ty) *Ty {
		if t == nil || t.IsShift() || t.Bare || r.Intn(100) >= pct {
			return t
		}
		if headless(t) != t.M {
			return t
		}
		c := *t
		c.Bare = true
		n++
		return &c
	}
	// definitions first (a bare definition changes what its references contribute)
	for i := range q.Types {
		td := &q.Types[i]
		if td.Bare || td.T.IsShift() || td.T.K == KName || r.Intn(100) >= pct {
			continue
		}
		bare[td.Name] = true
		if defMode(td) == td.T.M {
			td.Bare = true
			n++
		} else {
			bare[td.Name] = false
		}
	}
	for _, f := range q.Funcs {
		f.Ret = try(f.Ret)
		for j := range f.Params {
			f.Params[j].T = try(f.Params[j].T)
		}
		Walk(f.Body, func(t *Term) {
			if t.Op == "new" && t.Ann != nil {
				t.Ann = try(t.Ann)
			}
		})
	}
	for _, pr := range q.Procs {
		pr.T = try(pr.T)
		Walk(pr.Body, func(t *Term) {
			if t.Op == "new" && t.Ann != nil {
				t.Ann = try(t.Ann)
			}
		})
	}
	// final audit with all decisions taken: every omitted head must be recovered exactly
	ok := true
	for i := range q.Types {
		if td := &q.Types[i]; td.Bare && !td.T.IsShift() && defMode(td) != td.T.M {
			ok = false
		}
	}
	audit := func(t *Ty) {
		if t != nil && t.Bare && headless(t) != t.M {
			ok = false
		}
	}
	for _, f := range q.Funcs {
		audit(f.Ret)
		for _, v := range f.Params {
			audit(v.T)
		}
		Walk(f.Body, func(t *Term) { audit(t.Ann) })
	}
	for _, pr := range q.Procs {
		audit(pr.T)
		Walk(pr.Body, func(t *Term) { audit(t.Ann) })
	}
	if !ok {
		return p.Clone(), 0
	}
	return q, n
}

// IdentBag lists every occurrence of a non-self name in the bodies of p (binders included,
// with explicit polarity marks), print / choice labels ("label:l") and called functions
// ("fn:f"), sorted. An exec declaration counts as one call of its function; the explicit provider name of a function counts as self.
func IdentBag(p *Program) []string {
	var bag []string
	var prov string
	name := func(ns ...string) {
		for _, n := range ns {
			b := Base(n)
			if n == "" || b == "self" || (prov != "" && b == prov) {
				continue
			}
			bag = append(bag, n)
		}
	}
	var walk func(t *Term)
	walk = func(t *Term) {
		if t == nil {
			return
		}
		switch t.Op {
		case "send", "recv", "split":
			name(t.X, t.Y, t.Z)
		case "sel":
			name(t.X, t.Y)
			bag = append(bag, "label:"+t.Lbl)
		case "cast", "fwd", "shift":
			name(t.X, t.Y)
		case "case":
			name(t.X)
			for _, b := range t.Brs {
				name(b.Var)
				bag = append(bag, "label:"+b.Lbl)
				walk(b.Body)
			}
		case "new":
			name(t.Y)
		case "close", "wait", "drop":
			name(t.X)
		case "call":
			name(t.Args...)
			bag = append(bag, "fn:"+t.Fn)
		case "print":
			bag = append(bag, "label:"+t.Lbl)
		}
		walk(t.Body)
		walk(t.Cont)
	}
	for _, pr := range p.Procs {
		prov = ""
		walk(pr.Body)
	}
	for _, f := range p.Funcs {
		prov = f.Prov
		walk(f.Body)
	}
	for _, e := range p.Execs {
		bag = append(bag, "fn:"+e) // exec f() is a process whose body is the call f()
	}
	sort.Strings(bag)
	return bag
}
