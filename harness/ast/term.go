package ast

import (
	"fmt"
	"sort"
	"strings"
)

// Names in terms are strings: "self", an identifier, or an identifier / self with an
// explicit polarity prefix ("+x", "-x", "+self").
func Base(n string) string {
	if len(n) > 0 && (n[0] == '+' || n[0] == '-') {
		return n[1:]
	}
	return n
}
func IsSelf(n string) bool { return Base(n) == "self" }

// Pol returns +1, -1 or 0.
func Pol(n string) int {
	if len(n) > 0 {
		switch n[0] {
		case '+':
			return 1
		case '-':
			return -1
		}
	}
	return 0
}

type CaseBr struct {
	Lbl, Var string
	Body     *Term
}

// Term ops: send X<Y,Z> | recv <Y,Z> <- recv X; Cont | sel X.Lbl<Y> | case X (Brs) |
// new Y [: Ann] <- new Body; Cont | call Fn(Args) | close X | fwd X Y | split <Y,Z> <- split X; Cont |
// wait X; Cont | cast X<Y> | shift Y <- shift X; Cont | drop X; Cont | print Lbl; Cont
type Term struct {
	Op      string
	X, Y, Z string
	Lbl     string
	Ann     *Ty
	AnnBare bool // print the annotation without its head mode
	Body    *Term
	Cont    *Term
	Brs     []CaseBr
	Fn      string
	Args    []string
}

type Var struct {
	N string
	T *Ty
}

type Func struct {
	Name   string
	Params []Var
	Ret    *Ty
	Body   *Term
	Prov   string // explicit provider name ("" = none): let f[prov : Ret, params] = body
}

type Proc struct {
	Names []string
	T     *Ty
	Body  *Term
}

type TypeDef struct {
	Name string
	T    *Ty
	Bare bool // print without head annotation
}

// Decl refers to one top-level declaration, for ordering.
type Decl struct {
	Kind string // "type", "fun", "prc", "exec"
	Idx  int
}

type Program struct {
	Types []TypeDef
	Funcs []*Func
	Procs []*Proc
	Execs []string
	Order []Decl // nil = types, funcs, procs, execs
	Feat  map[string]int
}

func (p *Program) Env() Env {
	e := Env{}
	for _, td := range p.Types {
		if _, dup := e[td.Name]; !dup {
			e[td.Name] = td.T
		}
	}
	return e
}

func (p *Program) FuncByName(n string) *Func {
	for _, f := range p.Funcs {
		if f.Name == n {
			return f
		}
	}
	return nil
}

// ab: a name right after '<' (a leading '-' would otherwise be scanned as "<-").
func ab(n string) string {
	if len(n) > 0 && n[0] == '-' {
		return " " + n
	}
	return n
}

func (t *Term) write(b *strings.Builder, ind string) {
	switch t.Op {
	case "send":
		fmt.Fprintf(b, "send %s<%s, %s>", t.X, ab(t.Y), t.Z)
	case "recv":
		fmt.Fprintf(b, "<%s, %s> <- recv %s;\n%s", ab(t.Y), t.Z, t.X, ind)
		t.Cont.write(b, ind)
	case "sel":
		fmt.Fprintf(b, "%s.%s<%s>", t.X, t.Lbl, ab(t.Y))
	case "case":
		fmt.Fprintf(b, "case %s (\n", t.X)
		for i, br := range t.Brs {
			sep := "  "
			if i > 0 {
				sep = "| "
			}
			fmt.Fprintf(b, "%s  %s%s<%s> => ", ind, sep, br.Lbl, ab(br.Var))
			br.Body.write(b, ind+"      ")
			b.WriteString("\n")
		}
		fmt.Fprintf(b, "%s)", ind)
	case "new":
		if t.Ann != nil {
			ann := t.Ann.String()
			if t.AnnBare {
				ann = t.Ann.Inner()
			}
			fmt.Fprintf(b, "%s : %s <- new ", t.Y, ann)
		} else {
			fmt.Fprintf(b, "%s <- new ", t.Y)
		}
		if hasCont(t.Body) {
			b.WriteString("(")
			t.Body.write(b, ind)
			b.WriteString(")")
		} else {
			t.Body.write(b, ind)
		}
		fmt.Fprintf(b, ";\n%s", ind)
		t.Cont.write(b, ind)
	case "call":
		fmt.Fprintf(b, "%s(%s)", t.Fn, strings.Join(t.Args, ", "))
	case "close":
		fmt.Fprintf(b, "close %s", t.X)
	case "fwd":
		fmt.Fprintf(b, "fwd %s %s", t.X, t.Y)
	case "split":
		fmt.Fprintf(b, "<%s, %s> <- split %s;\n%s", ab(t.Y), t.Z, t.X, ind)
		t.Cont.write(b, ind)
	case "wait":
		fmt.Fprintf(b, "wait %s;\n%s", t.X, ind)
		t.Cont.write(b, ind)
	case "cast":
		fmt.Fprintf(b, "cast %s<%s>", t.X, ab(t.Y))
	case "shift":
		fmt.Fprintf(b, "%s <- shift %s;\n%s", t.Y, t.X, ind)
		t.Cont.write(b, ind)
	case "drop":
		fmt.Fprintf(b, "drop %s;\n%s", t.X, ind)
		t.Cont.write(b, ind)
	case "print":
		fmt.Fprintf(b, "print %s;\n%s", t.Lbl, ind)
		t.Cont.write(b, ind)
	default:
		panic("op " + t.Op)
	}
}

func hasCont(t *Term) bool {
	switch t.Op {
	case "send", "sel", "call", "close", "fwd", "cast":
		return false
	}
	return true
}

// HasCont reports whether the form has a continuation (Grits refuses such cut bodies).
func HasCont(t *Term) bool { return hasCont(t) }

func (t *Term) String() string {
	var b strings.Builder
	t.write(&b, "")
	return b.String()
}

func (td TypeDef) Text() string {
	if td.Bare {
		return fmt.Sprintf("type %s = %s\n", td.Name, td.T.Inner())
	}
	return fmt.Sprintf("type %s = %s\n", td.Name, td.T.String())
}

func (f *Func) Text() string {
	var b strings.Builder
	var ps []string
	for _, v := range f.Params {
		ps = append(ps, fmt.Sprintf("%s : %s", v.N, v.T.String()))
	}
	if f.Prov != "" {
		all := append([]string{fmt.Sprintf("%s : %s", f.Prov, f.Ret.String())}, ps...)
		fmt.Fprintf(&b, "let %s[%s] =\n    ", f.Name, strings.Join(all, ", "))
	} else {
		fmt.Fprintf(&b, "let %s(%s) : %s =\n    ", f.Name, strings.Join(ps, ", "), f.Ret.String())
	}
	f.Body.write(&b, "    ")
	b.WriteString("\n")
	return b.String()
}

func (pr *Proc) Text() string {
	var b strings.Builder
	fmt.Fprintf(&b, "prc[%s] : %s =\n    ", strings.Join(pr.Names, ", "), pr.T.String())
	pr.Body.write(&b, "    ")
	b.WriteString("\n")
	return b.String()
}

func (p *Program) decls() []Decl {
	if p.Order != nil {
		return p.Order
	}
	var d []Decl
	for i := range p.Types {
		d = append(d, Decl{"type", i})
	}
	for i := range p.Funcs {
		d = append(d, Decl{"fun", i})
	}
	for i := range p.Procs {
		d = append(d, Decl{"prc", i})
	}
	for i := range p.Execs {
		d = append(d, Decl{"exec", i})
	}
	return d
}

// Decls returns the declaration order (materialised).
func (p *Program) Decls() []Decl { return append([]Decl(nil), p.decls()...) }

func (p *Program) Text() string {
	var b strings.Builder
	for _, d := range p.decls() {
		switch d.Kind {
		case "type":
			b.WriteString(p.Types[d.Idx].Text())
		case "fun":
			b.WriteString(p.Funcs[d.Idx].Text())
		case "prc":
			b.WriteString(p.Procs[d.Idx].Text())
		case "exec":
			fmt.Fprintf(&b, "exec %s()\n", p.Execs[d.Idx])
		}
	}
	return b.String()
}

// ---- traversal helpers ----

// CloneTerm deep-copies a term (type annotations are shared).
func CloneTerm(t *Term) *Term {
	if t == nil {
		return nil
	}
	c := *t
	c.Body = CloneTerm(t.Body)
	c.Cont = CloneTerm(t.Cont)
	if t.Brs != nil {
		c.Brs = make([]CaseBr, len(t.Brs))
		for i, b := range t.Brs {
			c.Brs[i] = CaseBr{b.Lbl, b.Var, CloneTerm(b.Body)}
		}
	}
	if t.Args != nil {
		c.Args = append([]string(nil), t.Args...)
	}
	return &c
}

func (p *Program) Clone() *Program {
	q := &Program{Feat: p.Feat}
	for _, td := range p.Types {
		q.Types = append(q.Types, TypeDef{td.Name, td.T.Clone(), td.Bare})
	}
	for _, f := range p.Funcs {
		g := &Func{Name: f.Name, Ret: f.Ret.Clone(), Body: CloneTerm(f.Body), Prov: f.Prov}
		for _, v := range f.Params {
			g.Params = append(g.Params, Var{v.N, v.T.Clone()})
		}
		q.Funcs = append(q.Funcs, g)
	}
	for _, pr := range p.Procs {
		q.Procs = append(q.Procs, &Proc{Names: append([]string(nil), pr.Names...), T: pr.T.Clone(), Body: CloneTerm(pr.Body)})
	}
	q.Execs = append([]string(nil), p.Execs...)
	if p.Order != nil {
		q.Order = append([]Decl(nil), p.Order...)
	}
	return q
}

// Walk visits every sub-term (pre-order).
func Walk(t *Term, f func(*Term)) {
	if t == nil {
		return
	}
	f(t)
	Walk(t.Body, f)
	Walk(t.Cont, f)
	for _, b := range t.Brs {
		Walk(b.Body, f)
	}
}

// FreeVars of a term, excluding self (polarity prefixes stripped).
func FreeVars(t *Term) []string {
	out := map[string]bool{}
	fv(t, map[string]bool{}, out)
	var r []string
	for k := range out {
		r = append(r, k)
	}
	sort.Strings(r)
	return r
}

func fv(t *Term, bound map[string]bool, out map[string]bool) {
	if t == nil {
		return
	}
	use := func(n string) {
		n = Base(n)
		if n != "" && n != "self" && !bound[n] {
			out[n] = true
		}
	}
	with := func(ns ...string) map[string]bool {
		b := make(map[string]bool, len(bound)+len(ns))
		for k := range bound {
			b[k] = true
		}
		for _, n := range ns {
			b[Base(n)] = true
		}
		return b
	}
	switch t.Op {
	case "send":
		use(t.X)
		use(t.Y)
		use(t.Z)
	case "recv":
		use(t.X)
		fv(t.Cont, with(t.Y, t.Z), out)
	case "sel", "cast":
		use(t.X)
		use(t.Y)
	case "case":
		use(t.X)
		for _, b := range t.Brs {
			fv(b.Body, with(b.Var), out)
		}
	case "new":
		fv(t.Body, bound, out)
		fv(t.Cont, with(t.Y), out)
	case "call":
		for _, a := range t.Args {
			use(a)
		}
	case "close":
		use(t.X)
	case "fwd":
		use(t.X)
		use(t.Y)
	case "split":
		use(t.X)
		fv(t.Cont, with(t.Y, t.Z), out)
	case "wait", "drop":
		use(t.X)
		fv(t.Cont, bound, out)
	case "shift":
		use(t.X)
		fv(t.Cont, with(t.Y), out)
	case "print":
		fv(t.Cont, bound, out)
	}
}

// UsesContraction: the program splits a channel or declares a multi-name process.
func (p *Program) UsesContraction() bool {
	found := false
	chk := func(t *Term) {
		if t.Op == "split" {
			found = true
		}
	}
	for _, f := range p.Funcs {
		Walk(f.Body, chk)
	}
	for _, pr := range p.Procs {
		if len(pr.Names) > 1 {
			found = true
		}
		Walk(pr.Body, chk)
	}
	return found
}

// PrintLabels lists the labels of all print sites.
func (p *Program) PrintLabels() []string {
	var out []string
	add := func(t *Term) {
		if t.Op == "print" {
			out = append(out, t.Lbl)
		}
	}
	for _, f := range p.Funcs {
		Walk(f.Body, add)
	}
	for _, pr := range p.Procs {
		Walk(pr.Body, add)
	}
	return out
}
