// Package sup: supervisor side of the worker protocol (job/result types, worker pool).
package sup

// Job is one unit of work for a gw worker process. Jobs are written as one JSON object
// per line on the worker's stdin; results come back on fd 3.
type Job struct {
	ID   int    `json:"id"`
	Kind string `json:"kind"` // parse | typecheck | run | seq | eq | roundtrip | defs | modes | termrt
	Text string `json:"text,omitempty"`
	Tag  string `json:"tag,omitempty"` // free-form, echoed back

	// run parameters
	Mode        string `json:"mode,omitempty"` // async | sync | np
	Monitor     bool   `json:"monitor,omitempty"`
	Procs       int    `json:"procs,omitempty"` // GOMAXPROCS (0 = leave)
	Seed        uint64 `json:"seed,omitempty"`
	Profile     string `json:"profile,omitempty"`
	Entry       string `json:"entry,omitempty"` // "" = manual (exact quiescence) | "init" (InitializeProcesses, 50ms heartbeat)
	ReuseEnv    bool   `json:"reuse_env,omitempty"` // entry init: run on the worker's one long-lived RuntimeEnvironment
	NoTypecheck bool   `json:"no_typecheck,omitempty"`
	EventBudget uint64 `json:"event_budget,omitempty"`
	WatchdogMs  int    `json:"watchdog_ms,omitempty"`

	// parse parameters
	ScanBudget int64 `json:"scan_budget,omitempty"`
	// typecheck parameters
	TypeBudget int64 `json:"type_budget,omitempty"`
	// AllocBudget: bytes the typecheck may allocate before the worker gives up on it (a
	// deterministic stand-in for time; 0 = no limit)
	AllocBudget uint64 `json:"alloc_budget,omitempty"`
	SettleMs   int   `json:"settle_ms,omitempty"` // how long to watch the checker goroutine after Typecheck returned

	Seq     []Job     `json:"seq,omitempty"`
	Queries []EqQuery `json:"queries,omitempty"`
}

// EqQuery asks for EqualType(A, B) where A and B are type names defined in Job.Text, or
// "name#path" for a sub-term (path = sequence of l/r/c/<branch index>).
type EqQuery struct {
	A string `json:"a"`
	B string `json:"b"`
}

type LiveEntry struct {
	State     string   `json:"state"`
	Form      string   `json:"form"`
	Providers []string `json:"providers"`
	Serial    int      `json:"serial"`
	OnTop     bool     `json:"on_top"`
	ChanLen   int      `json:"chan_len"`
}

type RunResult struct {
	Mode        string         `json:"mode"`
	Stdout      []string       `json:"stdout"`       // labels of "> l" lines in stdout order
	StdoutOther int            `json:"stdout_other"` // other stdout lines
	HookPrints  []string       `json:"hook_prints"`  // labels seen by the print hook, in order
	PrintBy     []int          `json:"print_by"`     // spawn serial of the printer, parallel to HookPrints
	MonPrints   int            `json:"mon_prints"`   // PRINT entries in the monitor's rule log (-1 = no monitor)
	Quiescent   bool           `json:"quiescent"`
	// ParkedOutsideHooks: quiescence was established from the goroutine dump (every interpreter
	// goroutine parked in a channel operation) while the hook table still showed activity
	ParkedOutsideHooks bool `json:"parked_outside_hooks,omitempty"`
	Watchdog    bool           `json:"watchdog"`
	Overrun     bool           `json:"overrun"`   // event budget exceeded
	Premature   bool           `json:"premature"` // heartbeat entry: cancelled while something was running
	Live        []LiveEntry    `json:"live"`
	Events      uint64         `json:"events"`
	Spawned     int            `json:"spawned"`
	MaxLive     int            `json:"max_live"`
	ZeroMsg     int            `json:"zero_msg"`
	Fingerprint uint64         `json:"fingerprint"`
	Rules       map[string]int `json:"rules,omitempty"`
	Kinds       map[string]int `json:"kinds,omitempty"`
	MaxStepGapUs int64         `json:"max_step_gap_us"` // longest silence between two transition steps
	// real entry point only, recorded by the heartbeat receiver's own goroutine: its timer
	// fired ExpirySilenceUs after the last heartbeat IT received (-1: never received one),
	// with an inactivity interval of TimeoutUs, after Beats received heartbeats
	TimerExpired    bool  `json:"timer_expired,omitempty"`
	ExpirySilenceUs int64 `json:"expiry_silence_us,omitempty"`
	TimeoutUs       int64 `json:"timeout_us,omitempty"`
	Beats           int64 `json:"beats,omitempty"`
	Dups        int            `json:"dups"`           // duplications of multi-provider processes
	DupSameIdent int           `json:"dup_same_ident"` // ... holding two channels with one identifier
	ProcCount   uint64         `json:"proc_count"`
	DeadCount   uint64         `json:"dead_count"`
	ElapsedUs   int64          `json:"elapsed_us"`
}

type TypeDump struct {
	Name string `json:"name"`
	Mode string `json:"mode"` // mode recorded for the definition
	Body string `json:"body"` // StringWithModality of the body
	Tree *TyNode `json:"tree,omitempty"`
	UnfoldSteps int64  `json:"unfold_steps,omitempty"` // Unfold calls needed to unfold a reference to the name
	UnfoldKind  string `json:"unfold_kind,omitempty"`  // constructor reached
}

// TyNode is a structural dump of a types.SessionType value.
type TyNode struct {
	K    string    `json:"k"` // unit send recv plus with up down name
	M    string    `json:"m"` // Modality().String()
	From string    `json:"from,omitempty"`
	To   string    `json:"to,omitempty"`
	Name string    `json:"name,omitempty"`
	Lbl  []string  `json:"lbl,omitempty"`
	Kids []*TyNode `json:"kids,omitempty"`
}

type Counts struct {
	Procs     int        `json:"procs"`
	ProcNames [][]string `json:"proc_names"`
	Funcs     int        `json:"funcs"`
	FuncNames []string   `json:"func_names"`
	FuncArity []int      `json:"func_arity"`
	FuncParams [][]string `json:"func_params"`
	Types     int        `json:"types"`
	TypeNames []string   `json:"type_names"`
	Assumed   int        `json:"assumed"`
	// Idents: every occurrence of a (non-self) name in the bodies of processes and functions,
	// with its explicit polarity mark, plus print / choice labels and called functions,
	// sorted (a bag: what the parser read, to be held against what was written)
	Idents []string `json:"idents,omitempty"`
}

type Result struct {
	ID   int    `json:"id"`
	Kind string `json:"kind"`
	Tag  string `json:"tag,omitempty"`

	ParseOK  bool    `json:"parse_ok"`
	ParseErr string  `json:"parse_err,omitempty"`
	Counts   *Counts `json:"counts,omitempty"`
	ScanSteps int64  `json:"scan_steps,omitempty"`
	AllocBytes uint64 `json:"alloc_bytes,omitempty"`

	TcRan        bool   `json:"tc_ran"`
	TcOK         bool   `json:"tc_ok"`
	TcErr        string `json:"tc_err,omitempty"`
	TcSteps      int64  `json:"tc_steps,omitempty"`       // typecheckForm calls until Typecheck returned
	TcStepsAfter int64  `json:"tc_steps_after,omitempty"` // typecheckForm calls observed after it returned
	TcEnded      bool   `json:"tc_ended"`                 // the worker goroutine reached its end hook
	TcCompleted  bool   `json:"tc_completed"`             // ... after running to its last statement
	TypeSteps    []int64 `json:"type_steps,omitempty"`    // equal, unfold, contractive, infer

	Run *RunResult `json:"run,omitempty"`

	Defs  []TypeDump `json:"defs,omitempty"`  // definitions after parsing (+ typechecking)
	Sigs  []TypeDump `json:"sigs,omitempty"`  // function signatures / process types / cut annotations
	Eq    []int      `json:"eq,omitempty"`    // 1 true, 0 false, -1 not resolvable
	Modes *ModeTable `json:"modes,omitempty"`

	RoundTrip []RTResult `json:"round_trip,omitempty"`

	Seq []Result `json:"seq,omitempty"`

	StragglerEvents int      `json:"straggler_events,omitempty"`
	StragglerPrints []string `json:"straggler_prints,omitempty"`
	Goroutines      int      `json:"goroutines,omitempty"`
	Err             string   `json:"err,omitempty"` // harness-level problem
}

type RTResult struct {
	Name    string `json:"name"`
	Printed string `json:"printed"`
	OK      bool   `json:"ok"`     // reparse succeeded
	Same    bool   `json:"same"`   // structurally the same
	Where   string `json:"where"`  // first mismatch path
	LeftOp  bool   `json:"left_op"` // the mismatch is at a node whose left operand is binary/shift
	Err     string `json:"err,omitempty"`
}

// ModeTable: the real Modality methods evaluated on every tuple.
type ModeTable struct {
	Names    []string          `json:"names"`
	Down     [][]bool          `json:"down"` // Down[i][j] = i.CanBeDownshiftedTo(j)
	UpT      [][]bool          `json:"up"`   // Up[i][j] = i.CanBeUpshiftedTo(j)
	Weaken   []bool            `json:"weaken"`
	Contract []bool            `json:"contract"`
	Equals   [][]bool          `json:"equals"`
	Spell    map[string]string `json:"spell"` // spelling -> String() of StringToMode
	// SpellAll: every distinct answer StringToMode gave for a spelling over the shuffled rounds
	SpellAll map[string][]string `json:"spell_all,omitempty"`
	Rounds   int                 `json:"rounds,omitempty"`
	// TablesStable: the relation tables were the same in every round
	TablesStable bool `json:"tables_stable"`
}
