package sup

import (
	"bufio"
	"bytes"
	"encoding/json"
	"fmt"
	"io"
	"os"
	"os/exec"
	"strings"
	"sync"
	"syscall"
	"time"
)

// Outcome is what the supervisor knows about one job after all its attempts.
type Outcome struct {
	Job      Job
	Res      *Result  // result of the last attempt that produced one (nil if every attempt died)
	Deaths   []string // stderr of each attempt during which the worker died while this job was started
	Hung     int      // attempts that hit the wall-clock watchdog (inconclusive)
	Attempts int
	// PostDeath: the worker died after delivering this job's result and before starting the
	// next one (activity left behind by this job killed the host)
	PostDeath string
}

func (o *Outcome) Died() bool { return len(o.Deaths) > 0 }

// DeathSig extracts a short, seed-independent signature of a worker death: the panic /
// fatal line and the first grits/ frame.
func DeathSig(stderr string) string {
	lines := strings.Split(stderr, "\n")
	head := ""
	frame := ""
	for i, l := range lines {
		if head == "" && (strings.HasPrefix(l, "panic:") || strings.HasPrefix(l, "fatal error:") || strings.Contains(l, "stack overflow") || strings.HasPrefix(l, "runtime: goroutine stack exceeds")) {
			head = l
			// interpreter errors put their text on the following lines
			for k := i + 1; k < len(lines) && k < i+4; k++ {
				if strings.HasPrefix(lines[k], "goroutine ") || strings.TrimSpace(lines[k]) == "" {
					break
				}
				head += " " + strings.TrimSpace(lines[k])
			}
		}
		if frame == "" && strings.HasPrefix(l, "grits/") && !strings.Contains(l, "RuntimeEnvironment).error") && !strings.Contains(l, ".vh") {
			frame = l
			if k := strings.Index(frame, "("); k > 0 {
				frame = frame[:k]
			}
		}
	}
	head = stripANSI(head)
	if len(head) > 300 {
		head = head[:300]
	}
	return head + " @ " + frame
}

func stripANSI(s string) string {
	var b strings.Builder
	for i := 0; i < len(s); i++ {
		if s[i] == 0x1b {
			for i < len(s) && s[i] != 'm' {
				i++
			}
			continue
		}
		b.WriteByte(s[i])
	}
	return b.String()
}

type Pool struct {
	N        int
	Bin      string
	Args     []string
	Env      []string
	Recycle  int           // jobs per worker process (default 200)
	Watchdog time.Duration // per job wall clock (default 60s); firing => inconclusive
	Retries  int           // extra attempts after a death (default 1)
	LogDir   string

	mu      sync.Mutex
	Spawned int
}

type lockedBuf struct {
	mu sync.Mutex
	b  bytes.Buffer
}

func (l *lockedBuf) Write(p []byte) (int, error) {
	l.mu.Lock()
	defer l.mu.Unlock()
	if l.b.Len() < 4<<20 {
		l.b.Write(p)
	}
	return len(p), nil
}
func (l *lockedBuf) String() string {
	l.mu.Lock()
	defer l.mu.Unlock()
	return l.b.String()
}

type wproc struct {
	cmd   *exec.Cmd
	stdin io.WriteCloser
	lines chan string
	errb  *lockedBuf
	jobs  int
}

func (p *Pool) start() (*wproc, error) {
	r, w, err := os.Pipe()
	if err != nil {
		return nil, err
	}
	cmd := exec.Command(p.Bin, p.Args...)
	cmd.Env = append(os.Environ(), p.Env...)
	cmd.ExtraFiles = []*os.File{w}
	devnull, _ := os.OpenFile(os.DevNull, os.O_WRONLY, 0)
	cmd.Stdout = devnull
	errb := &lockedBuf{}
	cmd.Stderr = errb
	stdin, err := cmd.StdinPipe()
	if err != nil {
		return nil, err
	}
	if err := cmd.Start(); err != nil {
		return nil, err
	}
	w.Close()
	devnull.Close()
	p.mu.Lock()
	p.Spawned++
	p.mu.Unlock()
	wp := &wproc{cmd: cmd, stdin: stdin, lines: make(chan string, 16), errb: errb}
	go func() {
		br := bufio.NewReaderSize(r, 1<<20)
		for {
			line, err := br.ReadString('\n')
			if line != "" {
				wp.lines <- line
			}
			if err != nil {
				break
			}
		}
		r.Close()
		close(wp.lines)
	}()
	return wp, nil
}

func (w *wproc) kill() {
	w.stdin.Close()
	if w.cmd.Process != nil {
		w.cmd.Process.Kill()
	}
	go func() {
		for range w.lines {
		}
	}()
	w.cmd.Wait()
}

// Run executes all jobs and returns outcomes in job order. onDone (optional) is called as
// outcomes complete.
func (p *Pool) Run(jobs []Job, onDone func(*Outcome)) []*Outcome {
	if p.N <= 0 {
		p.N = 16
	}
	if p.Recycle <= 0 {
		p.Recycle = 200
	}
	if p.Watchdog <= 0 {
		p.Watchdog = 60 * time.Second
	}
	outs := make([]*Outcome, len(jobs))
	for i := range jobs {
		jobs[i].ID = i
		outs[i] = &Outcome{Job: jobs[i]}
	}
	type item struct{ idx int }
	queue := make(chan item, len(jobs)*(p.Retries+2)+1)
	for i := range jobs {
		queue <- item{i}
	}
	var pending sync.WaitGroup
	pending.Add(len(jobs))
	go func() {
		pending.Wait()
		close(queue)
	}()
	var cbMu sync.Mutex
	finish := func(o *Outcome) {
		if onDone != nil {
			cbMu.Lock()
			onDone(o)
			cbMu.Unlock()
		}
		pending.Done()
	}
	var wg sync.WaitGroup
	for k := 0; k < p.N; k++ {
		wg.Add(1)
		go func() {
			defer wg.Done()
			var w *wproc
			var prev *Outcome // the job this worker completed last
			defer func() {
				if w != nil {
					w.kill()
				}
			}()
			for it := range queue {
				o := outs[it.idx]
				if w == nil || w.jobs >= p.Recycle {
					if w != nil {
						w.kill()
					}
					var err error
					w, err = p.start()
					if err != nil {
						o.Res = &Result{ID: it.idx, Err: "cannot start worker: " + err.Error()}
						w = nil
						finish(o)
						continue
					}
				}
				w.jobs++
				o.Attempts++
				b, _ := json.Marshal(o.Job)
				b = append(b, '\n')
				_, werr := w.stdin.Write(b)
				var res *Result
				died, hung, started := werr != nil, false, false
				timer := time.NewTimer(p.Watchdog)
			wait:
				for !died {
					select {
					case line, ok := <-w.lines:
						if !ok {
							died = true
							break wait
						}
						if strings.HasPrefix(line, "START ") {
							started = true
						}
						if strings.HasPrefix(line, "RESULT ") {
							var r Result
							if err := json.Unmarshal([]byte(strings.TrimPrefix(line, "RESULT ")), &r); err == nil {
								res = &r
							} else {
								res = &Result{ID: it.idx, Err: "bad result: " + err.Error()}
							}
							break wait
						}
					case <-timer.C:
						hung = true
						if w.cmd.Process != nil {
							w.cmd.Process.Signal(syscall.SIGQUIT)
						}
						time.Sleep(300 * time.Millisecond)
						break wait
					}
				}
				timer.Stop()
				switch {
				case res != nil:
					o.Res = res
					prev = o
					finish(o)
				case hung:
					o.Hung++
					p.saveLog(o, w.errb.String(), "hung")
					w.kill()
					w = nil
					prev = nil
					finish(o)
				case !started && prev != nil:
					// the worker was already dying when this job arrived: blame the previous job
					w.cmd.Wait()
					prev.PostDeath = w.errb.String()
					p.saveLog(prev, prev.PostDeath, "postdeath")
					w.kill()
					w = nil
					prev = nil
					o.Attempts--
					queue <- it
				default:
					w.cmd.Wait()
					o.Deaths = append(o.Deaths, w.errb.String())
					p.saveLog(o, w.errb.String(), "death")
					w.kill()
					w = nil
					prev = nil
					if o.Attempts <= p.Retries {
						queue <- it
					} else {
						finish(o)
					}
				}
			}
		}()
	}
	wg.Wait()
	return outs
}

func (p *Pool) saveLog(o *Outcome, stderr, what string) {
	if p.LogDir == "" {
		return
	}
	os.MkdirAll(p.LogDir, 0o755)
	name := fmt.Sprintf("%s/%s-job%d-try%d.log", p.LogDir, what, o.Job.ID, o.Attempts)
	if len(stderr) > 1<<20 {
		stderr = stderr[:1<<20]
	}
	os.WriteFile(name, []byte(stderr), 0o644)
}

// Deaths0 returns the stderr of the first death (or of the post-result death).
func (o *Outcome) Deaths0() string {
	if len(o.Deaths) > 0 {
		return o.Deaths[0]
	}
	return o.PostDeath
}
