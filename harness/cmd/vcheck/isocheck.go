package main

import (
	"fmt"
	"math/rand"
	"strings"

	vast "verif/ast"
	"verif/gen"
	"verif/mut"
	"verif/ref/typing"
	"verif/ref/sem"
	"verif/sup"
)

// ---------------------------------------------------------------- C19

type isoObs struct {
	parseOK, tcOK bool
	ms            string
	clean         bool
	ran           bool
	shape         string // what the parser produced: processes (names), functions (names, arities), type names
	perr          string // class of the parse diagnostic
}

func obsOf(r *sup.Result, mode string) isoObs {
	o := isoObs{parseOK: r.ParseOK, tcOK: r.TcOK}
	if r.Counts != nil {
		o.shape = fmt.Sprintf("procs=%v funcs=%v/%v types=%v assumed=%d", r.Counts.ProcNames, r.Counts.FuncNames, r.Counts.FuncArity, r.Counts.TypeNames, r.Counts.Assumed)
	}
	if !r.ParseOK {
		o.perr = errClass(r.ParseErr)
	}
	if r.Run != nil {
		o.ran = true
		o.ms = sem.MS(r.Run.Stdout)
		o.clean = true
		if mode != "np" {
			o.clean, _ = cleanFinal(mode, r.Run.Live, true)
		}
	}
	return o
}

func checkC19() int {
	c := NewCheck("C19")
	r := rand.New(rand.NewSource(subSeed(c.Seed, 1919)))
	c.Rule = "sequences of 5..40 programs (G1 programs, ill-typed mutants, unparseable edits, complete programs followed by an illegal character, bare-expression programs, twins that differ in a few mode words only (own mode / replicable, inferable head annotations omitted), programs padded to the same large number (48) of function definitions, with repeats) are parsed, typechecked and executed one after another inside ONE worker process (async / sync alternating, np for contraction-free programs), also in reverse order and with every program doubled; baseline: each program alone in a fresh worker; oracle: the i-th program's (parse verdict, parse diagnostic class, what the parser produced: process / function / type names and arities, type verdict, printed multiset, clean completion) equals its baseline, no print or monitor event of an earlier run is observed during a later one, and the worker survives the whole sequence; non-trivial = distinct sequence of >= 5 programs containing accepted and rejected ones"
	c.Assumptions = []string{"each program ends by exact quiescence before the next starts, so stragglers can only come from genuinely leaked activity", "prints are attributed to runs through the RuntimeEnvironment the print hook receives"}
	base := genCases(c, c.pick(60, 600), 19, nil)
	type item struct {
		text  string
		mode  string
		kind  string
		contr bool
	}
	var items []item
	for i, pc := range base {
		mode := []string{"async", "sync"}[i%2]
		if !pc.Contr && i%3 == 0 {
			mode = "np"
		}
		items = append(items, item{pc.Text, mode, "G1", pc.Contr})
		if i%2 == 0 {
			if m := mut.Mutate(pc.P, r); m != nil {
				items = append(items, item{m.P.Text(), mode, "mutant", true})
			}
		} else if m := mut.Mutate(pc.P, r, "typing"); m != nil {
			// ill-typed relatives of an accepted program: same type, function and channel names
			items = append(items, item{m.P.Text(), mode, "mutant", true})
		}
		if i%5 == 0 {
			items = append(items, item{gen.EditText(r, pc.Text, 2), mode, "edit", true})
		}
		if i%7 == 0 {
			items = append(items, item{gen.RandSyntax(r), "async", "syntax", true})
		}
		if i%4 == 1 {
			// a complete program followed by a character outside the alphabet
			items = append(items, item{pc.Text + "\n" + illegalRunes[r.Intn(len(illegalRunes))] + "\n", mode, "illegal-tail", true})
		}
		if i%6 == 2 {
			// a program that is one bare expression (the grammar's 'root' process)
			l := fmt.Sprintf("bare%d", i)
			t := []string{"print " + l + "; close self\n", "x <- new close self; print " + l + "; wait x; close self\n", "x : lin 1 <- new close self;\nwait x; print " + l + "; close self\n"}[r.Intn(3)]
			items = append(items, item{t, mode, "bare-expression", true})
		}
		if i%4 == 3 && len(pc.P.Funcs) < 48 {
			// programs padded to the same large number of function definitions (48): they share
			// the padding's names and, as all generated programs do, many of their own
			q := pc.P.Clone()
			for j := 0; len(q.Funcs) < 48; j++ {
				q.Funcs = append(q.Funcs, &vast.Func{Name: fmt.Sprintf("padf%d", j), Params: []vast.Var{{N: "x", T: vast.Unit(vast.Rep)}}, Ret: vast.Unit(vast.Rep), Body: &vast.Term{Op: "wait", X: "x", Cont: &vast.Term{Op: "close", X: "self"}}})
			}
			if typing.Check(q).Kind == typing.Accept {
				items = append(items, item{q.Text(), mode, "padded-48-functions", pc.Contr})
			}
		}
		if i%3 == 2 {
			// twins: the same program in its own mode and recoloured to replicable, both written
			// with every inferable head annotation omitted: the texts differ in a few mode words only
			a, _ := vast.BareHeads(pc.P, r, 100)
			tw := mut.RecolorAll(pc.P, vast.Rep)
			if typing.Check(tw).Kind == typing.Accept {
				b, _ := vast.BareHeads(tw, r, 100)
				if a.Text() != b.Text() {
					items = append(items, item{a.Text(), mode, "twin-own-mode", pc.Contr}, item{b.Text(), mode, "twin-replicable", true})
				}
			}
		}
	}
	// a well-typed program that deadlocks at once: a ring of 300 top-level forwards; whatever a
	// run leaves behind (parked goroutines, counters) is multiplied by repeating it
	ringIdx := -1
	{
		var b strings.Builder
		const ring = 300
		for k := 0; k < ring; k++ {
			fmt.Fprintf(&b, "prc[ring%d] : lin 1 = fwd self ring%d\n", k, (k+1)%ring)
		}
		items = append(items, item{b.String(), "async", "forward-ring", false})
		ringIdx = len(items) - 1
	}
	job := func(it item, id int) sup.Job {
		return sup.Job{Kind: "run", Text: it.text, Mode: it.mode, Tag: it.kind, Seed: uint64(id), Profile: "gosched", Procs: 4, EventBudget: 3000000}
	}
	// baselines: one fresh worker per program
	fresh := newPool()
	fresh.Recycle = 1
	bjobs := make([]sup.Job, len(items))
	for i, it := range items {
		bjobs[i] = job(it, i)
	}
	bouts := fresh.Run(bjobs, nil)
	baseObs := make([]*isoObs, len(items))
	for i, o := range bouts {
		if o.Died() || o.Res == nil || o.PostDeath != "" {
			continue // a program that kills even a fresh worker is C01/C09's business
		}
		ob := obsOf(o.Res, items[i].mode)
		if o.Res.Run != nil && (o.Res.Run.Watchdog || o.Res.Run.Overrun) {
			continue
		}
		baseObs[i] = &ob
	}
	var bares []int
	for i, it := range items {
		if it.kind == "bare-expression" {
			bares = append(bares, i)
		}
	}
	// sequences
	nSeq := c.pick(50, 1200)
	type seqMeta struct {
		idx  []int
		kind string
	}
	var sjobs []sup.Job
	var metas []seqMeta
	for s := 0; s < nSeq; s++ {
		n := 5 + r.Intn(36)
		var idx []int
		for len(idx) < n {
			k := r.Intn(len(items))
			if baseObs[k] == nil {
				continue
			}
			idx = append(idx, k)
			if r.Intn(6) == 0 {
				idx = append(idx, k) // repeat
			}
			// relatives next to each other: a program and its mutant share every name
			if items[k].kind == "mutant" && k > 0 && baseObs[k-1] != nil && r.Intn(2) == 0 {
				idx = append(idx, k-1, k)
			}
			// twins in both orders
			if items[k].kind == "twin-replicable" && baseObs[k-1] != nil {
				idx = append(idx, k-1, k)
			}
			// an unparseable text is followed by a bare expression now and then
			if (items[k].kind == "illegal-tail" || items[k].kind == "edit" || items[k].kind == "syntax") && len(bares) > 0 && r.Intn(2) == 0 {
				if b := bares[r.Intn(len(bares))]; baseObs[b] != nil {
					idx = append(idx, b)
				}
			}
		}
		variants := map[string][]int{"forward": idx}
		if s%3 == 1 {
			rev := make([]int, len(idx))
			for i := range idx {
				rev[i] = idx[len(idx)-1-i]
			}
			variants = map[string][]int{"reversed": rev}
		}
		if s%3 == 2 {
			var dbl []int
			for _, k := range idx {
				dbl = append(dbl, k, k)
			}
			variants = map[string][]int{"doubled": dbl}
		}
		for kind, ix := range variants {
			j := sup.Job{Kind: "seq"}
			for _, k := range ix {
				j.Seq = append(j.Seq, job(items[k], k))
			}
			sjobs = append(sjobs, j)
			metas = append(metas, seqMeta{ix, kind})
		}
	}
	// the deadlocking ring 24 times in a row between ordinary programs
	if ringIdx >= 0 && baseObs[ringIdx] != nil {
		for rep := 0; rep < c.pick(1, 6); rep++ {
			var idx []int
			pickOrd := func() {
				for tries := 0; tries < 50; tries++ {
					k := r.Intn(len(items))
					if baseObs[k] != nil && items[k].kind == "G1" {
						idx = append(idx, k)
						return
					}
				}
			}
			pickOrd()
			for q := 0; q < 24; q++ {
				idx = append(idx, ringIdx)
			}
			for q := 0; q < 6; q++ {
				pickOrd()
			}
			j := sup.Job{Kind: "seq"}
			for _, k := range idx {
				j.Seq = append(j.Seq, job(items[k], k))
			}
			sjobs = append(sjobs, j)
			metas = append(metas, seqMeta{idx, "after-deadlocks"})
		}
	}
	// sequences on one long-lived RuntimeEnvironment through the real entry point
	nReuse := c.pick(16, 200)
	for s := 0; s < nReuse; s++ {
		n := 3 + r.Intn(6)
		var idx []int
		for len(idx) < n {
			k := r.Intn(len(items))
			if baseObs[k] == nil || !baseObs[k].ran {
				continue
			}
			idx = append(idx, k)
		}
		j := sup.Job{Kind: "seq"}
		for _, k := range idx {
			x := job(items[k], k)
			x.Entry, x.ReuseEnv, x.Profile = "init", true, "none"
			if x.Mode == "sync" {
				x.Mode = "async" // the public entry point is used as the CLI uses it
			}
			j.Seq = append(j.Seq, x)
		}
		sjobs = append(sjobs, j)
		metas = append(metas, seqMeta{idx, "reused-environment"})
	}
	// typecheck-only sequences: many small, related texts (an accepted program, its ill-typed
	// relatives, each with its declarations in several orders), every one submitted twice in
	// a row, as a user of the web interface pressing 'run' again would
	type tcItem struct {
		text string
		ok   bool
		have bool
	}
	var tcs []tcItem
	for i, pc := range base {
		if i%2 == 1 {
			continue
		}
		tcs = append(tcs, tcItem{text: pc.Text})
		for k := 0; k < 4; k++ {
			if m := mut.Mutate(pc.P, r, "typing", "mode", "substructural"); m != nil {
				tcs = append(tcs, tcItem{text: mut.Permute(m.P, r).Text()})
			}
		}
	}
	// type-equality probes (a forward, call or cut between two names of one environment that
	// are equal, or differ in one place): comparisons that fail after unfolding definitions
	for _, p := range genEqProbes(subSeed(c.Seed, 1920), c.pick(150, 1200), 8) {
		tcs = append(tcs, tcItem{text: p.text})
	}
	{
		jobs := make([]sup.Job, len(tcs))
		for i, t := range tcs {
			jobs[i] = sup.Job{Kind: "typecheck", Text: t.text}
		}
		for i, o := range fresh.Run(jobs, nil) {
			if o.Res != nil && !o.Died() && o.PostDeath == "" && o.Res.ParseOK {
				tcs[i].ok, tcs[i].have = o.Res.TcOK, true
			}
		}
	}
	nTc := c.pick(60, 600)
	tcSeqStart := len(sjobs)
	var tcIdx [][]int
	for s := 0; s < nTc; s++ {
		j := sup.Job{Kind: "seq"}
		var idx []int
		for len(idx) < 200 {
			k := r.Intn(len(tcs))
			if !tcs[k].have {
				continue
			}
			reps := 2 + r.Intn(2)
			for q := 0; q < reps; q++ {
				idx = append(idx, k)
				// one, two or sixteen cores: state kept per core (pools, caches) is met again with
				// certainty on one core and only sometimes on many
				j.Seq = append(j.Seq, sup.Job{Kind: "typecheck", Text: tcs[k].text, Procs: []int{1, 2, 16}[s%3]})
			}
		}
		sjobs = append(sjobs, j)
		metas = append(metas, seqMeta{nil, "typecheck-only"})
		tcIdx = append(tcIdx, idx)
	}
	pool := newPool()
	pool.Recycle = 1 // every sequence in its own process
	pool.Watchdog = 0
	souts := pool.Run(sjobs, nil)
	progRuns, mixed := 0, 0
	for si, o := range souts {
		m := metas[si]
		c.Evaluations++
		describe := func(upto int) []string {
			var d []string
			for i := 0; i <= upto && i < len(m.idx); i++ {
				d = append(d, fmt.Sprintf("#%d %s(%s)", i, items[m.idx[i]].kind, items[m.idx[i]].mode))
			}
			return d
		}
		if (o.Died() || o.PostDeath != "") && m.kind == "reused-environment" {
			// on a reused environment a straggler of a run that the 50 ms heartbeat cancelled too
			// early (starved goroutine on a loaded machine) continues under the next run's context
			// and definitions; without the run results this cannot be told apart: inconclusive
			c.Inconc("death-on-reused-environment(possible premature heartbeat)")
			continue
		}
		if o.Died() || o.PostDeath != "" {
			var texts []string
			for _, k := range m.idx {
				texts = append(texts, items[k].text)
			}
			c.Violation("the host dies in the course of a sequence although every program survives alone: "+normDeath(o.Deaths0()), map[string]interface{}{"sequence": describe(len(m.idx)), "programs": texts, "stderr": clip(o.Deaths0(), 4000)})
			continue
		}
		if o.Res == nil {
			c.Inconc("watchdog")
			continue
		}
		if m.kind == "typecheck-only" {
			idx := tcIdx[si-tcSeqStart]
			okSeq := true
			for i, r2 := range o.Res.Seq {
				progRuns++
				if !r2.ParseOK || !r2.TcRan {
					continue
				}
				if r2.TcOK != tcs[idx[i]].ok {
					w := map[string]interface{}{"position": i, "program": tcs[idx[i]].text, "verdict_in_sequence": r2.TcOK, "verdict_alone": tcs[idx[i]].ok, "error_in_sequence": r2.TcErr}
					if i > 0 {
						w["previous_program"] = tcs[idx[i-1]].text
						w["previous_is_the_same_text"] = idx[i-1] == idx[i]
					}
					c.Violation("the type verdict of a program differs after a history of typechecks (typecheck-only sequence)", w)
					okSeq = false
					break
				}
			}
			if okSeq {
				c.Nontrivial(fmt.Sprint("tc", si))
			}
			continue
		}
		bad := false
		kinds := map[bool]bool{}
		for i, r2 := range o.Res.Seq {
			k := m.idx[i]
			b := baseObs[k]
			progRuns++
			w := map[string]interface{}{"position": i, "sequence": describe(i), "program": items[k].text, "order": m.kind}
			if i > 0 {
				w["previous_program"] = items[m.idx[i-1]].text
			}
			if len(r2.StragglerPrints) > 0 {
				w["straggler_prints"] = r2.StragglerPrints
				c.Violation("a label of an earlier run is printed while a later program is running", w)
				bad = true
				break
			}
			if r2.Run != nil && (r2.Run.Watchdog || r2.Run.Overrun) {
				c.Inconc("run-watchdog")
				continue
			}
			got := obsOf(&r2, items[k].mode)
			kinds[got.tcOK] = true
			if m.kind == "reused-environment" {
				if r2.Run != nil && r2.Run.Premature && r2.Run.ElapsedUs < 45000 && i > 0 {
					// the 50 ms heartbeat cannot have expired yet: the run was born cancelled
					w["elapsed_us"] = r2.Run.ElapsedUs
					c.Violation("a run on a reused RuntimeEnvironment ends before its heartbeat interval could elapse (cancelled from the start)", w)
					bad = true
					break
				}
				if r2.Run != nil && r2.Run.Premature {
					c.Inconc("heartbeat-premature")
					break // later programs of this sequence may see this run's stragglers
				}
				// only verdicts and prints are comparable (the entry point and mode differ)
				got.clean = b.clean
			}
			if got != *b {
				what := "outcome"
				switch {
				case got.parseOK != b.parseOK:
					what = "parse verdict"
				case got.tcOK != b.tcOK:
					what = "type verdict"
				case got.ms != b.ms:
					what = "printed multiset"
				case got.clean != b.clean:
					what = "completion"
				case got.shape != b.shape:
					what = "parse result (processes, functions and types produced by the parser)"
				case got.perr != b.perr:
					what = "parse diagnostic"
				}
				w["in_sequence"] = fmt.Sprintf("%+v", got)
				w["alone"] = fmt.Sprintf("%+v", *b)
				if r2.Run != nil {
					w["live_in_sequence"] = liveStrings(r2.Run.Live)
					w["run_flags"] = fmt.Sprintf("premature=%v watchdog=%v overrun=%v elapsed_us=%d", r2.Run.Premature, r2.Run.Watchdog, r2.Run.Overrun, r2.Run.ElapsedUs)
				}
				var texts []string
				for q := 0; q <= i; q++ {
					texts = append(texts, items[m.idx[q]].text)
				}
				w["programs"] = texts
				c.Violation(fmt.Sprintf("the %s of a program differs after a history (%s order)", what, m.kind), w)
				bad = true
				break
			}
		}
		if bad {
			continue
		}
		if len(m.idx) >= 5 && len(kinds) == 2 {
			mixed++
			c.Nontrivial(fmt.Sprint(m.idx))
		}
		if len(c.Samples) < 3 && len(m.idx) < 12 {
			var d []string
			for i, k := range m.idx {
				ms := ""
				if i < len(o.Res.Seq) && o.Res.Seq[i].Run != nil {
					ms = sem.MS(o.Res.Seq[i].Run.Stdout)
				}
				d = append(d, fmt.Sprintf("%s/%s tc=%v prints=%s", items[k].kind, items[k].mode, baseObs[k].tcOK, clip(ms, 40)))
			}
			c.Sample(map[string]interface{}{"order": m.kind, "history": d, "goroutines_left_at_the_end": o.Res.Seq[len(o.Res.Seq)-1].Goroutines})
		}
	}
	c.Extra["typecheck_only_sequences"] = nTc
	c.Extra["programs_in_the_pool"] = len(items)
	c.Extra["program_runs_inside_sequences"] = progRuns
	c.Extra["sequences_mixing_accepted_and_rejected"] = mixed
	_ = strings.Join
	return c.Finish()
}
