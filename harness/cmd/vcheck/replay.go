package main

import (
	"encoding/json"
	"fmt"
	"os"

	"verif/ref/sem"
	"verif/sup"
)

// replay re-executes the witness of a violation: a run witness is repeated under up to 200
// schedules, any other witness is parsed and typechecked again. It prints what it observes.
func replay(path string) int {
	b, err := os.ReadFile(path)
	if err != nil {
		fmt.Fprintln(os.Stderr, err)
		return 2
	}
	var w map[string]json.RawMessage
	if err := json.Unmarshal(b, &w); err != nil {
		fmt.Fprintln(os.Stderr, err)
		return 2
	}
	var sig, prop string
	json.Unmarshal(w["signature"], &sig)
	json.Unmarshal(w["property"], &prop)
	fmt.Printf("replaying %s: %s\n", prop, sig)
	pool := newPool()
	if raw, ok := w["job"]; ok {
		var j sup.Job
		json.Unmarshal(raw, &j)
		var jobs []sup.Job
		for i := 0; i < 200; i++ {
			k := j
			k.Seed = uint64(i)
			k.Profile = profileNames[i%len(profileNames)]
			k.Procs = procChoices[i%4]
			jobs = append(jobs, k)
		}
		died, outcomes := 0, map[string]int{}
		for _, o := range pool.Run(jobs, nil) {
			switch {
			case o.Died():
				died++
				outcomes["died: "+normDeath(o.Deaths[0])]++
			case o.Res == nil:
				outcomes["watchdog"]++
			case o.Res.Run == nil:
				outcomes["not run: "+clip(o.Res.ParseErr+o.Res.TcErr, 80)]++
			default:
				outcomes[fmt.Sprintf("prints=%s live=%d zero=%d", sem.MS(o.Res.Run.Stdout), len(o.Res.Run.Live), o.Res.Run.ZeroMsg)]++
			}
		}
		for k, n := range outcomes {
			fmt.Printf("  %4d x %s\n", n, k)
		}
		if died > 0 {
			return 1
		}
		return 0
	}
	for _, key := range []string{"program", "definitions", "text", "variant"} {
		if raw, ok := w[key]; ok {
			var text string
			json.Unmarshal(raw, &text)
			outs := pool.Run([]sup.Job{{Kind: "typecheck", Text: text}}, nil)
			o := outs[0]
			switch {
			case o.Died():
				fmt.Println("  worker died:", normDeath(o.Deaths[0]))
				return 1
			case o.Res == nil:
				fmt.Println("  watchdog")
			default:
				fmt.Printf("  parse ok=%v (%s) typecheck ok=%v (%s) steps after verdict=%d completed=%v\n", o.Res.ParseOK, clip(o.Res.ParseErr, 100), o.Res.TcOK, clip(o.Res.TcErr, 160), o.Res.TcStepsAfter, o.Res.TcCompleted)
			}
			return 0
		}
	}
	fmt.Println("  nothing to re-execute in this witness")
	return 0
}
