package main

import (
	"path/filepath"
	"os"
	"fmt"
	"math/rand"
	"regexp"
	"sort"
	"strings"

	vast "verif/ast"
	"verif/gen"
	"verif/mut"
	"verif/ref/rtypes"
	"verif/sup"
)

// ---------------------------------------------------------------- C11

// allocation bound: a + b*len(s) bytes, with roughly 10x headroom over what the parser
// needs on declaration-poor inputs (its tables cost ~100 KiB per call whatever the input).
const allocA = 2 << 20
const allocB = 6000

func countDecls(s string) int {
	n := 0
	for _, kw := range []string{"type ", "let ", "prc", "exec ", "assuming "} {
		n += strings.Count(s, kw)
	}
	return n
}

func checkC11() int {
	c := NewCheck("C11")
	pool := newPool()
	r := rand.New(rand.NewSource(subSeed(c.Seed, 1111)))
	c.Rule = "G3: prefixes of every corpus file (byte granularity, sampled in quick), 1-3 byte/token edits of corpus files, random token soups over the lexer's alphabet plus out-of-alphabet runes, random bytes, grammar-shaped random programs, pathological shapes (10^4-deep brackets, 20 000-factor types, 64 KiB lines, unterminated comments and strings of comment openers, thousands of declarations), environments of 65..150 distinct definitions (long unannotated protocols, large G2 environments) and G1 programs made large in one respect (alias chains, padding definitions / functions, chains of cuts, long names, many parameters); oracle: the worker survives, scanner reads <= 4*len+64 (hook; exceeding it aborts, so a spin is a verdict not a hang), bytes allocated by the call <= 2 MiB + 6000*len; non-trivial = distinct text"
	c.Assumptions = []string{"time is represented by its two deterministic proxies, scanner steps and bytes allocated; wall clock is not a verdict"}
	var texts, tags []string
	add := func(tag, t string) { texts = append(texts, t); tags = append(tags, tag) }
	ct := corpusTexts()
	keys := sortedKeys(ct)
	step := c.pick(7, 1)
	for _, k := range keys {
		t := ct[k]
		off := r.Intn(step)
		for i := off; i <= len(t); i += step {
			add("prefix", t[:i])
		}
	}
	nEdit := c.pick(4000, 150000)
	for i := 0; i < nEdit; i++ {
		t := ct[keys[r.Intn(len(keys))]]
		add("edit", gen.EditText(r, t, 1+r.Intn(3)))
	}
	nSoup := c.pick(4000, 150000)
	for i := 0; i < nSoup; i++ {
		switch i % 3 {
		case 0:
			add("soup", gen.TokenSoup(r, 1+r.Intn(60)))
		case 1:
			b := make([]byte, r.Intn(200))
			r.Read(b)
			add("bytes", string(b))
		default:
			add("syntax", gen.RandSyntax(r))
		}
	}
	// pathological shapes
	deep := c.pick(10000, 20000)
	add("shape", "type A = "+strings.Repeat("(", deep)+"1"+strings.Repeat(")", deep))
	add("shape", "type A = "+strings.Repeat("(", deep))
	add("shape", "prc[a] : 1 = "+strings.Repeat("(", deep)+"close self"+strings.Repeat(")", deep))
	add("shape", "type A = "+strings.Repeat("1 * ", deep)+"1")
	add("shape", "type A = "+strings.Repeat("1 -* ", deep)+"1")
	add("shape", "type A = "+strings.Repeat("lin /\\ lin ", 5000)+"1")
	add("shape", "type A = +{"+strings.Repeat("l : 1, ", 5000)+"l : 1}")
	add("shape", "prc[a] : 1 = "+strings.Repeat("print x; ", 5000)+"close self")
	add("shape", "prc[a] : 1 = "+strings.Repeat("x <- new close self; ", 3000)+"close self")
	add("shape", "prc[a] : 1 = case x ("+strings.Repeat("l<y> => close self | ", 3000)+"l<y> => close self)")
	add("shape", "prc[a] : 1 = f("+strings.Repeat("x, ", 5000)+"x)")
	add("shape", strings.Repeat("x", 65536))
	add("shape", strings.Repeat("/", 65536))
	add("shape", strings.Repeat("/*", 30000))
	add("shape", strings.Repeat("*/", 30000))
	add("shape", strings.Repeat("//\n", 20000))
	add("shape", "/* never closed")
	add("shape", "prc[a] : 1 = close self /* tail")
	add("shape", "prc[a] : 1 = close self /* tail *")
	add("shape", "/")
	add("shape", "\n=")
	add("shape", "-")
	add("shape", "1")
	add("shape", "<")
	add("shape", "\\")
	add("shape", strings.Repeat("\n", 50000)+"=")
	add("shape", strings.Repeat(" ", 65536))
	add("shape", strings.Repeat("prc[a] : 1 = close self\n", 40))
	for _, n := range []int{12, 18, 30} {
		add("chains", rtypes.DefsText(rtypes.DeepChains(n, 3, "")))
		add("chains", rtypes.DefsText(rtypes.DeepChains(n, 2, "lin")))
	}
	// many distinct definitions (65..150), among them recursive and unannotated ones: long
	// protocols, large G2 environments, G1 programs padded with unused definitions / functions,
	// long alias chains, long chains of cuts, long names
	for k := 0; k < c.pick(12, 150); k++ {
		add("many-defs", rtypes.DefsText(rtypes.GenChainDefs(r)))
	}
	for k, n := 0, 0; n < c.pick(12, 150) && k < 100000; k++ {
		if defs, _ := rtypes.GenDefs(r, 10); len(defs) > 60 {
			add("many-defs", rtypes.DefsText(defs))
			n++
		}
	}
	for _, pc := range genCases(c, c.pick(40, 400), 11, nil) {
		q, kind := mut.Inflate(pc.P, r, "")
		add("inflated-"+kind, q.Text())
	}
	add("decls", strings.Repeat("type A = 1\n", 250))
	add("decls", strings.Repeat("type A = 1\n", c.pick(1000, 4000)))
	add("decls", strings.Repeat("let f() : 1 = close self\n", c.pick(600, 2500)))
	add("decls", strings.Repeat("exec f()\n", c.pick(1000, 4000)))

	jobs := make([]sup.Job, len(texts))
	for i, t := range texts {
		jobs[i] = sup.Job{Kind: "parse", Text: t, Tag: tags[i], ScanBudget: int64(4*len(t) + 64)}
	}
	pool.Watchdog = 0
	outs := pool.Run(jobs, nil)
	byTag, accepted := map[string]int{}, 0
	maxScan, maxAlloc := 0.0, 0.0
	var maxAllocText string
	for _, o := range outs {
		c.Evaluations++
		t := o.Job.Text
		byTag[o.Job.Tag]++
		w := map[string]interface{}{"text": clip(t, 3000), "length": len(t), "source": o.Job.Tag}
		if o.Died() {
			w["stderr"] = clip(o.Deaths[0], 3000)
			if strings.Contains(o.Deaths[0], "verif: type algorithm step budget") {
				c.Violation("parsing does not finish within a polynomial step budget: the mode inference run by the parser explodes", w)
			} else if strings.Contains(o.Deaths[0], "verif: scanner step budget") {
				c.Violation("parser does not terminate: scanner keeps reading at the end of the input ("+shapeOf(t)+")", w)
			} else {
				c.Violation("parser kills the host: "+normDeath(o.Deaths[0]), w)
			}
			continue
		}
		if o.Res == nil {
			c.Inconc("watchdog")
			continue
		}
		if o.Res.ParseOK {
			accepted++
		}
		if sr := float64(o.Res.ScanSteps) / float64(len(t)+16); sr > maxScan {
			maxScan = sr
		}
		bound := uint64(allocA + allocB*len(t))
		if ar := float64(o.Res.AllocBytes) / float64(bound); ar > maxAlloc {
			maxAlloc = ar
			maxAllocText = clip(t, 80)
		}
		if o.Res.AllocBytes > bound {
			d := countDecls(t)
			if n := strings.Count(t, ","); n > d {
				d = n
			}
			w["alloc_bytes"] = o.Res.AllocBytes
			w["bound"] = bound
			w["longest_list"] = d
			quad := uint64(d) * uint64(d) * 400
			if d >= 50 && o.Res.AllocBytes <= bound+quad {
				c.Violation("allocation grows quadratically with the length of a list (declarations, names, branches): above the linear bound but within 400*L^2 bytes of it", w)
			} else {
				c.Violation("allocation exceeds the linear bound 2 MiB + 6000*len", w)
			}
			continue
		}
		c.Nontrivial(t)
		if len(c.Samples) < 5 && (o.Job.Tag == "soup" || o.Job.Tag == "edit") && len(t) < 200 && len(t) > 20 {
			c.Sample(map[string]interface{}{"source": o.Job.Tag, "text": t, "accepted": o.Res.ParseOK, "error": clip(o.Res.ParseErr, 80), "scan_steps": o.Res.ScanSteps, "alloc_bytes": o.Res.AllocBytes})
		}
	}
	c.Extra["texts_by_source"] = byTag
	c.Extra["texts_accepted"] = accepted
	c.Extra["max_scanner_reads_per_byte"] = maxScan
	c.Extra["max_alloc_over_bound"] = maxAlloc
	c.Extra["text_with_max_alloc_ratio"] = maxAllocText
	return c.Finish()
}

func shapeOf(t string) string {
	switch {
	case strings.Contains(t, "/*") && strings.LastIndex(t, "/*") > strings.LastIndex(t, "*/"):
		return "text ends inside a block comment"
	}
	return "other"
}

// ---------------------------------------------------------------- C12

// the last five are characters Unicode calls spaces but the language does not: they are
// outside its alphabet like any other illegal character
var illegalRunes = []string{"@", "#", "$", "~", "!", "?", "\"", "^", "`", "\x00", "é", "\\ ", "\f", "\u0085", "\u00a0", "\u2028", "\u3000"}
var closers = []string{")", "]", "}"}
var cutAfter = []string{" = ", " : ", "<- ", ", ", "new ", "recv ", "case ", "split ", "shift ", "wait ", "drop ", "print ", "fwd ", "close ", "send ", "type ", "let ", "exec "}

var reSpaces = regexp.MustCompile(`\s+`)

func checkC12() int {
	c := NewCheck("C12")
	pool := newPool()
	r := rand.New(rand.NewSource(subSeed(c.Seed, 1212)))
	c.Rule = "(a) grammatical G1 programs (a third with explicit polarities on 40 % of the names and names with every initial letter; half of them also made large in one respect: long names, alias chains, padding, chains of cuts; a few parallel compositions of 60..90 programs, 70..200 KiB) and G2 definition sets: the parse result must have exactly the declarations that were printed (processes with their provider lists, functions with parameter names, types, execs) and the bag of names, labels and called functions read from the bodies must be the bag written (polarity marks included); (b) definitely ungrammatical edits of them: one of 12 out-of-alphabet runes (incl. NUL) or an unmatched closing bracket inserted at a byte offset, or the text cut right after a token that cannot end a sentence: must be rejected; non-trivial = distinct edited text"
	c.Assumptions = []string{"only edits that are ungrammatical under any reading of the grammar are used; no reference grammar decides acceptance"}
	cases := genCases(c, c.pick(60, 2000), 12, func(i int) *gen.Opt {
		if i%3 == 2 {
			// explicit polarities on many names, names with every initial letter
			o := polOpt(i)
			o.Pol, o.Alpha = 40, 60
			return o
		}
		return mixedOpt(i)
	})
	// the same programs made large in one respect (long names, alias chains, padding, chains of cuts)
	for i, pc := range cases[:len(cases)/2] {
		q, kind := mut.Inflate(pc.P, r, []string{"long-names", ""}[i%2])
		cases = append(cases, &progCase{ID: pc.ID + "-" + kind, P: q, Text: q.Text(), Source: "G1-inflated"})
	}
	type item struct {
		text, kind string
		pc         *progCase
	}
	var items []item
	// texts well beyond 64 KiB: parallel compositions of 60..90 programs; the same with a
	// character outside the alphabet, or a cut, in their last quarter
	for k := 0; k < c.pick(3, 30); k++ {
		var ps []*vast.Program
		for _, pc := range genCases(c, 60+r.Intn(31), 1200+k, nil) {
			ps = append(ps, pc.P)
		}
		big := mut.Compose(ps)
		bpc := &progCase{ID: fmt.Sprintf("big%d", k), P: big, Text: big.Text(), Source: "G1-composed"}
		items = append(items, item{bpc.Text, "grammatical", bpc})
		t := bpc.Text
		for q := 0; q < 6; q++ {
			pos := len(t)*3/4 + r.Intn(len(t)/4)
			items = append(items, item{t[:pos] + illegalRunes[r.Intn(len(illegalRunes))] + t[pos:], "illegal-rune", bpc})
		}
		items = append(items, item{t + "\nprc[", "truncated-after:prc[", bpc}, item{t + "\n) ) )", "unmatched-closer", bpc})
		c.Extra["largest_text_bytes"] = len(t)
	}
	for _, pc := range cases {
		items = append(items, item{pc.Text, "grammatical", pc})
	}
	// the same programs with comments (all the usual styles) put where white space is
	comments := []string{"/* c */", "/** doc **/", "/***/", "/**/", "// line\n", "/* two\n   lines */", "/*\n * banner\n */", "/* prc[zz] : 1 = close self */", "// type Z = 1\n"}
	for _, pc := range cases {
		t := pc.Text
		var b strings.Builder
		for i := 0; i < len(t); i++ {
			if (t[i] == ' ' || t[i] == '\n') && r.Intn(12) == 0 {
				b.WriteByte(t[i])
				b.WriteString(comments[r.Intn(len(comments))])
				b.WriteByte(' ')
				continue
			}
			b.WriteByte(t[i])
		}
		b.WriteString(comments[r.Intn(len(comments))])
		items = append(items, item{b.String(), "grammatical", pc})
	}
	envs := genEnvs(c, c.pick(100, 3000), 12, 0)
	for _, e := range envs {
		items = append(items, item{e.text, "grammatical-defs", nil})
	}
	// witnesses of repaired defects (all grammatical)
	if fs, _ := filepath.Glob("/verif/known/fixed/*.grits"); len(fs) > 0 {
		for _, f := range fs {
			if b, err := os.ReadFile(f); err == nil {
				items = append(items, item{string(b), "grammatical-witness", nil})
			}
		}
	}
	perProg := c.pick(60, 90)
	for _, pc := range cases {
		t := pc.Text
		for k := 0; k < perProg; k++ {
			pos := r.Intn(len(t) + 1)
			switch k % 6 {
			case 0, 1, 2, 3:
				ill := illegalRunes[r.Intn(len(illegalRunes))]
				items = append(items, item{t[:pos] + ill + t[pos:], "illegal-rune", pc})
			case 4:
				cl := closers[r.Intn(len(closers))]
				items = append(items, item{t[:pos] + " " + cl + " " + t[pos:], "unmatched-closer", pc})
			default:
				tok := cutAfter[r.Intn(len(cutAfter))]
				var idx []int
				for off := 0; ; {
					i := strings.Index(t[off:], tok)
					if i < 0 {
						break
					}
					idx = append(idx, off+i+len(tok))
					off += i + 1
				}
				if len(idx) > 0 {
					cut := idx[r.Intn(len(idx))]
					items = append(items, item{t[:cut], "truncated-after:" + strings.TrimSpace(tok), pc})
				}
			}
		}
	}
	jobs := make([]sup.Job, len(items))
	for i, it := range items {
		jobs[i] = sup.Job{Kind: "parse", Text: it.text, Tag: it.kind}
	}
	outs := pool.Run(jobs, nil)
	byKind := map[string]int{}
	for i, o := range outs {
		it := items[i]
		c.Evaluations++
		if o.Died() || o.Res == nil {
			if o.Res == nil && !o.Died() {
				c.Inconc("watchdog")
			}
			continue // C11
		}
		kind := it.kind
		if j := strings.Index(kind, ":"); j > 0 {
			kind = kind[:j]
		}
		byKind[kind]++
		w := map[string]interface{}{"text": clip(it.text, 4000), "kind": it.kind}
		switch {
		case it.kind == "grammatical":
			if !o.Res.ParseOK {
				c.Violation("a grammatical program is rejected by the parser: "+errClass(o.Res.ParseErr), w)
				continue
			}
			if d := declDiff(it.pc, o.Res.Counts); d != "" {
				w["difference"] = d
				c.Violation("the parsed program does not have the declarations of the text ("+strings.SplitN(d, ":", 2)[0]+")", w)
				continue
			}
			if it.pc.P != nil {
				// every name, label and function written in a body must be in the parsed bodies,
				// spelt as written (with its polarity mark), and nothing else
				want, got := vast.IdentBag(it.pc.P), o.Res.Counts.Idents
				if d := bagDiff(want, got); d != "" {
					w["difference"] = d
					c.Violation("the names read by the parser are not the names written in the text", w)
					continue
				}
			}
		case it.kind == "grammatical-witness":
			if !o.Res.ParseOK {
				c.Violation("a grammatical program is rejected by the parser: "+errClass(o.Res.ParseErr), w)
				continue
			}
		case it.kind == "grammatical-defs":
			if !o.Res.ParseOK {
				c.Violation("grammatical type definitions are rejected by the parser: "+errClass(o.Res.ParseErr), w)
				continue
			}
			want := strings.Count(it.text, "type ")
			if o.Res.Counts.Types != want {
				c.Violation("the parsed program does not have the declarations of the text (types)", w)
				continue
			}
		default:
			if o.Res.ParseOK {
				what := it.kind
				if it.kind == "illegal-rune" {
					what = "a character outside the alphabet"
				}
				c.Violation("a text containing "+what+" is accepted", w)
				continue
			}
		}
		c.Nontrivial(it.text)
		if len(c.Samples) < 4 && it.kind != "grammatical" && it.kind != "grammatical-defs" && len(it.text) < 500 {
			c.Sample(map[string]interface{}{"kind": it.kind, "text": it.text, "error": o.Res.ParseErr})
		}
	}
	c.Extra["texts_by_kind"] = byKind
	_ = rtypes.DefsText
	return c.Finish()
}

// declDiff compares the declarations of the AST with what the parser returned.
func declDiff(pc *progCase, got *sup.Counts) string {
	p := pc.P
	if got == nil {
		return "counts: missing"
	}
	if got.Procs != len(p.Procs)+len(p.Execs) {
		return fmt.Sprintf("processes: %d parsed, %d written", got.Procs, len(p.Procs)+len(p.Execs))
	}
	var want, have []string
	for _, pr := range p.Procs {
		want = append(want, strings.Join(pr.Names, ","))
	}
	for i := range p.Execs {
		want = append(want, fmt.Sprintf("exec%d", i+1))
	}
	for _, ns := range got.ProcNames {
		have = append(have, strings.Join(ns, ","))
	}
	sort.Strings(want)
	sort.Strings(have)
	if strings.Join(want, ";") != strings.Join(have, ";") {
		return fmt.Sprintf("process names: parsed %v, written %v", have, want)
	}
	if got.Funcs != len(p.Funcs) {
		return fmt.Sprintf("functions: %d parsed, %d written", got.Funcs, len(p.Funcs))
	}
	for i, f := range p.Funcs {
		if got.FuncNames[i] != f.Name {
			return fmt.Sprintf("function names: %s vs %s", got.FuncNames[i], f.Name)
		}
		var ps []string
		for _, v := range f.Params {
			ps = append(ps, v.N)
		}
		if strings.Join(ps, ",") != strings.Join(got.FuncParams[i], ",") {
			return fmt.Sprintf("parameters of %s: parsed %v, written %v", f.Name, got.FuncParams[i], ps)
		}
	}
	if got.Types != len(p.Types) {
		return fmt.Sprintf("types: %d parsed, %d written", got.Types, len(p.Types))
	}
	for i, td := range p.Types {
		if got.TypeNames[i] != td.Name {
			return fmt.Sprintf("type names: %s vs %s", got.TypeNames[i], td.Name)
		}
	}
	return ""
}

// bagDiff: the first few elements in which two sorted bags differ.
func bagDiff(want, got []string) string {
	cnt := map[string]int{}
	for _, x := range want {
		cnt[x]++
	}
	for _, x := range got {
		cnt[x]--
	}
	var d []string
	for k, v := range cnt {
		if v > 0 {
			d = append(d, fmt.Sprintf("written, not read: %s x%d", k, v))
		} else if v < 0 {
			d = append(d, fmt.Sprintf("read, not written: %s x%d", k, -v))
		}
	}
	sort.Strings(d)
	if len(d) > 6 {
		d = d[:6]
	}
	return strings.Join(d, "; ")
}
