// vcheck <property|smoke> [quick|thorough]: the driver of all checks.
package main

import (
	"fmt"
	"os"
	"runtime"
	"verif/sup"
)

func binDir() string {
	if d := os.Getenv("VERIF_BIN"); d != "" {
		return d
	}
	return "/verif/bin"
}

func newPool() *sup.Pool {
	return &sup.Pool{N: runtime.NumCPU(), Bin: binDir() + "/gw", Retries: 1, LogDir: "/verif/logs"}
}

func main() {
	if len(os.Args) < 2 {
		fmt.Fprintln(os.Stderr, "usage: vcheck <Cxx|smoke> [quick|thorough]")
		os.Exit(2)
	}
	switch os.Args[1] {
	case "smoke":
		os.Exit(smoke(newPool()))
	case "replay":
		if len(os.Args) < 3 {
			fmt.Fprintln(os.Stderr, "usage: vcheck replay <file>")
			os.Exit(2)
		}
		os.Exit(replay(os.Args[2]))
	case "dev":
		runDev(os.Args[2], os.Args[3:])
	}
	if f, ok := checks[os.Args[1]]; ok {
		os.Exit(f())
	}
	fmt.Fprintln(os.Stderr, "unknown check", os.Args[1])
	os.Exit(2)
}

var checks = map[string]func() int{
	"C01": checkC01,
	"C02": checkC02,
	"C03": checkC03,
	"C04": checkC04,
	"C05": checkC05,
	"C06": checkC06,
	"C07": checkC07,
	"C08": checkC08,
	"C09": checkC09,
	"C10": checkC10,
	"C11": checkC11,
	"C12": checkC12,
	"C13": checkC13,
	"C14": checkC14,
	"C15": checkC15,
	"C17": checkC17,
	"C18": checkC18,
	"C19": checkC19,
	"C16": checkC16,
}
