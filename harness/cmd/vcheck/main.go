// vcheck <property|smoke> [quick|thorough]: the driver of all checks.
package main

import (
	"fmt"
	"os"
	"runtime"
	"verif/sup"
)

func binDir() string {
	if d := os.Getenv("VERIF_BIN"); d != "" {
		return d
	}
	return "/verif/bin"
}

func newPool() *sup.Pool {
	return &sup.Pool{N: runtime.NumCPU(), Bin: binDir() + "/gw", Retries: 1, LogDir: "/verif/logs"}
}

func main() {
	if len(os.Args) < 2 {
		fmt.Fprintln(os.Stderr, "usage: vcheck <Cxx|smoke> [quick|thorough]")
		os.Exit(2)
	}
	switch os.Args[1] {
	case "smoke":
		os.Exit(smoke(newPool()))
	case "dev":
		runDev(os.Args[2], os.Args[3:])
	}
	fmt.Fprintln(os.Stderr, "unknown check", os.Args[1])
	os.Exit(2)
}
