package main

import (
	"fmt"
	"strings"

	"verif/sup"
)

// contextMatrix: the independence principle seen directly. For every provider mode m and every
// ordered context of 1..3 (quick) or 1..4 (thorough) parameter modes, the function
//
//	let f(x0 : m0 1, x1 : m1 1, ...) : m 1 = wait x0; wait x1; ...; close self
//
// is well typed exactly when every mi can be down-shifted to m (rep >= aff, mul >= lin; aff
// and mul incomparable). The oracle is the adjoint preorder written out here, independent of
// R1 and of the order in which the parameters are listed.
func contextMatrix(c *Check, pool *sup.Pool) {
	modes := []string{"lin", "aff", "mul", "rep"}
	geq := func(a, b string) bool { // a >= b
		return a == b || a == "rep" || b == "lin"
	}
	maxLen := c.pick(3, 4)
	type probe struct {
		text string
		want bool
		ctx  []string
		prov string
	}
	var ps []probe
	var build func(ctx []string)
	build = func(ctx []string) {
		if len(ctx) > 0 {
			for _, m := range modes {
				var params, body []string
				want := true
				for i, mi := range ctx {
					params = append(params, fmt.Sprintf("x%d : %s 1", i, mi))
					body = append(body, fmt.Sprintf("wait x%d; ", i))
					if !geq(mi, m) {
						want = false
					}
				}
				ps = append(ps, probe{fmt.Sprintf("let f(%s) : %s 1 = %sclose self\n", strings.Join(params, ", "), m, strings.Join(body, "")), want, append([]string(nil), ctx...), m})
			}
		}
		if len(ctx) == maxLen {
			return
		}
		for _, m := range modes {
			build(append(ctx, m))
		}
	}
	build(nil)
	jobs := make([]sup.Job, len(ps))
	for i, p := range ps {
		jobs[i] = sup.Job{Kind: "typecheck", Text: p.text}
	}
	agree := map[string]int{}
	for i, o := range pool.Run(jobs, nil) {
		p := ps[i]
		c.Evaluations++
		if o.Res == nil || o.Died() {
			c.Inconc("context-matrix-no-result")
			continue
		}
		if !o.Res.ParseOK {
			c.Inconc("context-matrix-not-parsed")
			continue
		}
		if o.Res.TcOK && !p.want {
			c.Violation(fmt.Sprintf("accepts a provider of mode %s that uses a channel of a mode that cannot be down-shifted to it (context-matrix)", p.prov), map[string]interface{}{"program": p.text, "context_modes": p.ctx, "provider_mode": p.prov})
			continue
		}
		if !o.Res.TcOK && p.want {
			// a rejected independent context is C07's business (well-typed program rejected)
			agree["rejected-although-independent"]++
			continue
		}
		agree[fmt.Sprintf("independent=%v", p.want)]++
		c.Nontrivial(p.text)
	}
	c.Extra["context_matrix_probes"] = agree
}
