package main

import (
	"fmt"
	"path/filepath"
	"math/rand"
	"os"
	"regexp"
	"strings"

	vast "verif/ast"
	"verif/gen"
	"verif/mut"
	"verif/ref/rtypes"
	"verif/ref/typing"
	"verif/sup"
)

type mcase struct {
	base   *progCase
	m      *mut.Mutant // nil = the unmutated program
	text   string
	v      typing.Verdict
	o      *sup.Outcome
	family string
	op     string
}

// mutantCases builds nMut mutants (of the given families) over nProg generated programs,
// plus the unmutated programs, runs Grits' typechecker on all of them and pairs each
// outcome with R1's verdict.
func mutantCases(c *Check, pool *sup.Pool, nProg, nMut int, salt int, families []string, opt func(i int) *gen.Opt) []*mcase {
	cases := genCases(c, nProg, salt, opt)
	var ms []*mcase
	r := rand.New(rand.NewSource(subSeed(c.Seed, salt*7777)))
	// two fifths of the texts are written with head mode annotations left out wherever mode
	// inference recovers them (same program, modes come from the definitions)
	bared := 0
	write := func(p *vast.Program) string {
		if p == nil || r.Intn(5) >= 2 {
			if p == nil {
				return ""
			}
			return p.Text()
		}
		q, n := vast.BareHeads(p, r, 60)
		bared += n
		return q.Text()
	}
	inflated := map[string]int{}
	for i, pc := range cases {
		ms = append(ms, &mcase{base: pc, text: pc.Text, v: typing.Verdict{Kind: typing.Accept}, family: "none", op: "unmutated"})
		if t := write(pc.P); t != pc.Text {
			ms = append(ms, &mcase{base: pc, text: t, v: typing.Verdict{Kind: typing.Accept}, family: "none", op: "unmutated-heads-omitted"})
		}
		// the same program made large in one respect (alias chains, many definitions, many
		// functions, long chains of cuts, long names, many parameters)
		if i%2 == 0 {
			q, kind := mut.Inflate(pc.P, r, "")
			if v := typing.Check(q); v.Kind == typing.Accept {
				inflated[kind]++
				ms = append(ms, &mcase{base: pc, text: write(q), v: v, family: "none", op: "unmutated-inflated-" + kind})
			}
		}
	}
	for i := 0; i < nMut; i++ {
		pc := cases[i%len(cases)]
		m := mut.Mutate(pc.P, r, families...)
		if m == nil {
			continue
		}
		if i%5 == 4 || (len(families) == 1 && i%3 == 1) {
			// a mutant of the inflated program: the defect sits next to something large (the
			// single-family checks C05 / C06 use alias chains for a third of their mutants: the
			// mode of a channel then comes down a long chain of definitions)
			kind := ""
			if len(families) == 1 && i%3 == 1 {
				kind = "alias-chain"
			}
			if q, kind := mut.Inflate(m.P, r, kind); q != nil {
				inflated["mutant/"+kind]++
				ms = append(ms, &mcase{base: pc, m: m, text: write(q), v: typing.Check(q), family: m.Family, op: m.Op})
				continue
			}
		}
		ms = append(ms, &mcase{base: pc, m: m, text: write(m.P), v: typing.Check(m.P), family: m.Family, op: m.Op})
	}
	c.Extra["inflated_programs_by_kind"] = inflated
	c.Extra["head_mode_annotations_omitted"] = bared
	jobs := make([]sup.Job, len(ms))
	for i, m := range ms {
		jobs[i] = sup.Job{Kind: "typecheck", Text: m.text, Tag: m.op, TypeBudget: 5000000}
	}
	outs := pool.Run(jobs, nil)
	for i := range ms {
		ms[i].o = outs[i]
	}
	return ms
}

var reLineNo = regexp.MustCompile(`\(Line [0-9]+\)|[0-9]+:[0-9]+`)
var reQuote = regexp.MustCompile(`'[^']*'`)
var reIdent = regexp.MustCompile(`\b[a-z]+[0-9]+\b`)

// errClass reduces a Grits diagnostic to its shape.
func errClass(s string) string {
	s = reLineNo.ReplaceAllString(s, "")
	s = reQuote.ReplaceAllString(s, "'_'")
	s = reIdent.ReplaceAllString(s, "_")
	s = reNum.ReplaceAllString(s, "N")
	if i := strings.LastIndex(s, "; "); i >= 0 && i < len(s)-2 {
		s = s[i+2:]
	}
	return clip(strings.Join(strings.Fields(s), " "), 90)
}

// gritsVerdict: "accept", "reject", "died", "hung"
func gritsVerdict(o *sup.Outcome) string {
	switch {
	case o.Died():
		return "died"
	case o.Res == nil:
		return "hung"
	case !o.Res.ParseOK:
		return "reject"
	case o.Res.TcOK:
		return "accept"
	}
	return "reject"
}

func mwitness(m *mcase) map[string]interface{} {
	w := map[string]interface{}{"program": m.text, "reference_verdict": m.v.String(), "mutation": m.op, "family": m.family, "grits": gritsVerdict(m.o)}
	if m.m != nil {
		w["mutation_desc"] = m.m.Desc
		w["original_program"] = m.base.Text
	}
	if m.o.Res != nil {
		w["grits_error"] = m.o.Res.TcErr + m.o.Res.ParseErr
	}
	if m.o.Died() {
		w["stderr"] = clip(m.o.Deaths[0], 4000)
	}
	return w
}

// judge classifies a disagreement: returns the property it belongs to and a signature.
func judge(m *mcase) (prop, sig string) {
	gv := gritsVerdict(m.o)
	if gv == "died" || gv == "hung" || m.v.Kind == typing.Unknown {
		return "", ""
	}
	switch {
	case m.v.Kind == typing.Accept && gv == "reject":
		return "C07", fmt.Sprintf("rejects a well-typed program (%s): %s", m.op, errClass(m.o.Res.TcErr+m.o.Res.ParseErr))
	case m.v.Kind == typing.Reject && gv == "accept":
		reason := m.v.Reason
		switch {
		case typing.Substructural(reason):
			return "C05", fmt.Sprintf("accepts a program that breaks the substructural discipline: %s (%s)", reason, m.op)
		case typing.ModeReason(reason):
			return "C06", fmt.Sprintf("accepts a program that breaks mode independence: %s (%s)", reason, m.op)
		case typing.TypeFormation(reason):
			return "C10", fmt.Sprintf("accepts ill-formed types: %s (%s)", reason, m.op)
		}
		return "C07", fmt.Sprintf("accepts an ill-typed program: %s (%s)", reason, m.op)
	}
	return "", ""
}

func staticCheck(prop string, salt int, families []string, nProgQ, nProgT, nMutQ, nMutT int, rule string, opt func(i int) *gen.Opt) int {
	c := NewCheck(prop)
	pool := newPool()
	ms := mutantCases(c, pool, c.pick(nProgQ, nProgT), c.pick(nMutQ, nMutT), salt, families, opt)
	c.Rule = rule
	c.Assumptions = []string{"R1 (independent adjoint SAX typing) and the generator are the trusted base; R1 accepts every generated program before it is used", "mutants R1 answers 'unknown' on are skipped and counted"}
	byOp := map[string]int{}
	byReason := map[string]int{}
	agree := map[string]int{}
	unknown, other := 0, 0
	for _, m := range ms {
		c.Evaluations++
		gv := gritsVerdict(m.o)
		if gv == "hung" {
			c.Inconc("watchdog")
			continue
		}
		if m.v.Kind == typing.Unknown {
			unknown++
			continue
		}
		if gv == "died" {
			other++ // C09's business
			continue
		}
		byOp[m.op]++
		if m.v.Kind == typing.Reject {
			byReason[m.v.Reason]++
		}
		p, sig := judge(m)
		if prop == "C06" && p == "C10" && strings.HasPrefix(m.v.Reason, "illformed-type:mode") {
			// a written mode that contradicts the real mode of the type: the independence check
			// is then made against a mode the channel does not have
			p, sig = "C06", fmt.Sprintf("accepts a program in which a written mode contradicts the mode of the type it annotates: %s (%s)", m.v.Reason, m.op)
		}
		if p == prop {
			c.Violation(sig, mwitness(m))
			continue
		}
		if p != "" {
			other++
			continue
		}
		agree[fmt.Sprintf("%v/%s", m.v.Kind == typing.Accept, gv)]++
		if m.m != nil {
			c.Nontrivial(m.text)
		}
		if len(c.Samples) < 4 && m.m != nil && m.v.Kind == typing.Reject && len(m.text) < 900 {
			c.Sample(map[string]interface{}{"mutation": m.m.Desc, "reference": m.v.String(), "grits": clip(m.o.Res.TcErr+m.o.Res.ParseErr, 160), "program": m.text})
		}
	}
	if prop == "C05" || prop == "C07" {
		// witnesses of repaired acceptance defects: must stay rejected
		fs, _ := filepath.Glob("/verif/known/fixed/reject-*.grits")
		for _, f := range fs {
			b, err := os.ReadFile(f)
			if err != nil {
				continue
			}
			o := pool.Run([]sup.Job{{Kind: "typecheck", Text: string(b)}}, nil)[0]
			c.Evaluations++
			if o.Res != nil && o.Res.ParseOK && o.Res.TcOK {
				c.Violation("accepts the witness of a repaired defect again: "+filepath.Base(f), map[string]interface{}{"program": string(b)})
			} else {
				c.Nontrivial(f)
			}
		}
	}
	if prop == "C06" {
		if b, err := os.ReadFile("/verif/known/K1.grits"); err == nil {
			o := pool.Run([]sup.Job{{Kind: "typecheck", Text: string(b)}}, nil)[0]
			c.PinnedWitness("K1", o.Res != nil && o.Res.TcOK, "accepts a program that breaks mode independence: independence@top (pinned witness)", map[string]interface{}{"program": string(b)})
		}
		contextMatrix(c, pool)
	}
	if prop == "C07" && c07Extra != nil {
		c07Extra(c, pool)
	}
	c.Extra["cases_by_mutation_operator"] = byOp
	c.Extra["reference_reject_reasons"] = byReason
	c.Extra["agreements(reference_accepts/grits)"] = agree
	c.Extra["skipped_reference_unknown"] = unknown
	c.Extra["disagreements_or_deaths_left_to_other_properties"] = other
	return c.Finish()
}

var c07Extra func(c *Check, pool *sup.Pool)

func mixedOpt(i int) *gen.Opt {
	if i%2 == 0 {
		return nil
	}
	o := gen.Opt{MaxSplit: 3, Pol: 3, Alias: 30, ExplicitSelf: 15, ExplicitProv: 15, Exec: 10, Print: 5, TopMax: 3, Fuel: 3, MultiProv: 25, Drop: 15, Split: 15, Mixed: true, MainMode: []vast.Mode{vast.Lin, vast.Lin, vast.Aff, vast.Mul}[i%4]}
	return &o
}

func checkC05() int {
	return staticCheck("C05", 5, []string{"substructural"}, 300, 1500, 6000, 60000,
		"G1 programs and their single-edit substructural mutants (delete / duplicate a consumer, wait->drop, drop inserted before a use, split then drop or use both halves, binder renamed to a live name for recv/case/split/shift/new, equal binders, extra provider name); oracle: if Grits accepts, R1 must not reject for a substructural reason; non-trivial = distinct mutant text judged by both", mixedOpt)
}

func checkC06() int {
	return staticCheck("C06", 6, []string{"mode"}, 300, 1500, 6000, 60000,
		"G1 mixed-mode programs and their single-edit mode mutants (recolour a parameter, result, process type, cut annotation or type definition to each other mode; change or flip a shift); oracle: if Grits accepts, R1 must not reject for an independence / shift reason; non-trivial = distinct mutant text judged by both",
		func(i int) *gen.Opt {
			o := gen.Opt{MaxSplit: 2, Pol: 2, Alias: 30, ExplicitSelf: 10, ExplicitProv: 10, Exec: 10, Print: 5, TopMax: 3, Fuel: 3, MultiProv: 20, Drop: 12, Split: 12, Mixed: true, MainMode: []vast.Mode{vast.Lin, vast.Lin, vast.Aff, vast.Mul, vast.Lin}[i%5]}
			return &o
		})
}

// eqProbes: "payload and continuation types agree up to type equality" seen through the
// typechecker: G2 environments extended with equal-by-construction and one-difference
// variants; for pairs of names (A, B) the program  let probe(x : A) : B = fwd self x  (or the
// same through a call of an identity function) must be accepted iff A and B are equal
// (bisimilar fully moded trees, R3).
type eqProbe struct {
	text string
	a, b string
	want bool
	kind string
}

func genEqProbes(seed int64, nEnv, perEnv int) []eqProbe {
	r := rand.New(rand.NewSource(seed))
	var ps []eqProbe
	for e := 0; e < nEnv; e++ {
		defs, _ := rtypes.GenDefs(r, 0)
		if an := rtypes.Analyze(defs); !an.WF {
			e--
			continue
		}
		defs = rtypes.EqVariants(r, defs)
		an := rtypes.Analyze(defs)
		if !an.WF {
			e--
			continue
		}
		text := rtypes.DefsText(defs)
		for k := 0; k < perEnv; k++ {
			a, b := defs[r.Intn(len(defs))].Name, defs[r.Intn(len(defs))].Name
			if k%3 == 0 {
				b = defs[len(defs)-1-r.Intn((len(defs)+1)/2)].Name // variants are appended last
			}
			if k%3 == 1 {
				// a variant against the very definition it was derived from (its name extends the
				// original's), in either order
				v := defs[len(defs)-1-r.Intn((len(defs)+1)/2)].Name
				for _, d := range defs {
					if d.Name != v && strings.HasPrefix(v, d.Name) {
						a, b = d.Name, v
						if r.Intn(2) == 0 {
							a, b = b, a
						}
						break
					}
				}
			}
			if k%3 == 2 {
				// two variants derived from the same definition (siblings: an unrolling against a
				// re-association, a permutation against a one-difference copy, ...)
				v := defs[len(defs)-1-r.Intn((len(defs)+1)/2)].Name
				for _, d := range defs {
					if d.Name == v || !strings.HasPrefix(v, d.Name) {
						continue
					}
					var sib []string
					for _, e := range defs {
						if e.Name != v && e.Name != d.Name && strings.HasPrefix(e.Name, d.Name) {
							sib = append(sib, e.Name)
						}
					}
					if len(sib) > 0 {
						a, b = v, sib[r.Intn(len(sib))]
					}
					break
				}
			}
			want := vast.Equal(vast.Named(a, an.Modes[a]), vast.Named(b, an.Modes[b]), an.Trees)
			var prog, kind string
			switch r.Intn(3) {
			case 0:
				kind = "call-argument"
				prog = fmt.Sprintf("%slet idp(x : %s) : %s = fwd self x\nlet probe(y : %s) : %s = idp(y)\n", text, a, a, b, a)
			case 1:
				kind = "cut-annotation"
				prog = fmt.Sprintf("%slet probe(y : %s) : %s = z : %s <- new fwd self y; fwd self z\n", text, a, b, b)
			default:
				kind = "forward"
				prog = fmt.Sprintf("%slet probe(x : %s) : %s = fwd self x\n", text, a, b)
			}
			ps = append(ps, eqProbe{prog, a, b, want, kind})
		}
	}
	return ps
}

func eqProbes(c *Check, pool *sup.Pool) {
	ps := genEqProbes(subSeed(c.Seed, 7070), c.pick(260, 2500), c.pick(14, 16))
	jobs := make([]sup.Job, len(ps))
	for i, p := range ps {
		jobs[i] = sup.Job{Kind: "typecheck", Text: p.text, TypeBudget: 5000000}
	}
	byKind := map[string]int{}
	for i, o := range pool.Run(jobs, nil) {
		p := ps[i]
		c.Evaluations++
		if o.Died() {
			continue // C08 / C09
		}
		if o.Res == nil {
			c.Inconc("watchdog")
			continue
		}
		if !o.Res.ParseOK {
			c.Violation("a type-equality probe does not parse: "+errClass(o.Res.ParseErr), map[string]interface{}{"program": p.text})
			continue
		}
		w := map[string]interface{}{"program": p.text, "types": []string{p.a, p.b}, "reference_equal": p.want, "grits_error": o.Res.TcErr, "probe": p.kind}
		switch {
		case o.Res.TcOK && !p.want:
			c.Violation(fmt.Sprintf("accepts an ill-typed program: a %s between unequal types", p.kind), w)
			continue
		case !o.Res.TcOK && p.want:
			c.Violation(fmt.Sprintf("rejects a well-typed program (%s between equal types): %s", p.kind, errClass(o.Res.TcErr)), w)
			continue
		}
		byKind[fmt.Sprintf("%s/equal=%v", p.kind, p.want)]++
		c.Nontrivial(p.text)
	}
	c.Extra["type_equality_probes"] = byKind
}

func checkC07() int {
	c07Extra = eqProbes
	defer func() { c07Extra = nil }()
	return staticCheck("C07", 7, nil, 400, 2000, 14000, 120000,
		"G1 programs (must be accepted) and single-edit mutants of every family (substructural, mode, typing, type definitions, polarities); oracle: Grits' verdict equals R1's in both directions; plus type-equality probes (forward / call argument / cut annotation between two names of a G2 environment with equal and one-difference variants; accepted iff R3 finds the names equal); disagreements whose reference reason is substructural / mode / type-formation are left to C05 / C06 / C10; non-trivial = distinct mutant text judged by both", mixedOpt)
}

// ---------------------------------------------------------------- C09

// tcTotality inspects one typecheck outcome for C09's refutations; returns a signature or "".
func tcTotality(o *sup.Outcome) string {
	switch {
	case o.Died() && strings.Contains(o.Deaths[0], "verif: scanner step budget"):
		return "" // the parser's business (C11)
	case o.Died() && strings.Contains(o.Deaths[0], "verif: typecheck allocation budget exceeded"):
		return "the typechecker does not come to a verdict within its allocation budget (1 GiB + 1 MB per input byte): a blow-up outside the type algorithms"
	case o.Died():
		return "typechecker killed the host: " + normDeath(o.Deaths[0])
	case o.PostDeath != "":
		return "host died after a verdict was returned: " + normDeath(o.PostDeath)
	case o.Res == nil:
		return ""
	case !o.Res.ParseOK || !o.Res.TcRan:
		return ""
	case strings.Contains(o.Res.TcErr, "internal typechecker error"):
		return "the checker panicked internally (recovered and reported as an error): " + errClass(o.Res.TcErr)
	case o.Res.TcOK && !o.Res.TcCompleted:
		return "success reported although the checker did not run to its end"
	case o.Res.TcStepsAfter > 0:
		return "the checker kept checking after it had returned its verdict"
	}
	return ""
}

func checkC09() int {
	c := NewCheck("C09")
	pool := newPool()
	c.Rule = "texts the parser accepts: corpus, G1 programs, single-edit mutants of every family (incl. explicit polarities on every kind of name position and ill-formed type definitions), G3 token soups and prefix/mutation variants of corpus files that happen to parse, type-equality probes (forward / call / cut between two names of a G2 environment with unrolled, aliased and one-difference variants); oracle: the worker survives, a verdict is returned, success implies the checker ran to its end, and no checking step happens after the verdict; hangs are decided by a logical step budget in the type algorithms and, outside them, by an allocation budget (1 GiB + 1 MB per input byte) sampled next to the call; the workload includes G1 programs made large in one respect (chains of 20..60 cuts, alias chains, padding); non-trivial = distinct text that parsed and was typechecked"
	c.Assumptions = []string{"a stack overflow or runtime panic anywhere in the worker during or after a typecheck job is attributed to that job", "wall-clock watchdogs only ever produce 'inconclusive'"}
	var texts []string
	var tags []string
	add := func(tag, t string) { texts = append(texts, t); tags = append(tags, tag) }
	ct := corpusTexts()
	for _, k := range sortedKeys(ct) {
		add("corpus", ct[k])
	}
	// witnesses of repaired defects (must stay repaired)
	if fs, _ := filepath.Glob("/verif/known/fixed/*.grits"); len(fs) > 0 {
		for _, f := range fs {
			if b, err := os.ReadFile(f); err == nil {
				add("fixed-witness:"+filepath.Base(f), string(b))
			}
		}
	}
	cases := genCases(c, c.pick(200, 2000), 9, func(i int) *gen.Opt {
		if i%2 == 0 {
			return mixedOpt(i / 2)
		}
		o := polOpt(i) // explicit polarities on a third of all name occurrences
		o.Pol = 30
		if i%4 == 1 {
			// constructor functions (send / select / cast on self with parameters whose types are
			// type names) with explicit polarities on most names
			o.Pol, o.Ctor = 55, 70
		}
		return o
	})
	for _, pc := range cases {
		add("G1", pc.Text)
	}
	r := rand.New(rand.NewSource(subSeed(c.Seed, 909)))
	nMut := c.pick(3000, 90000)
	for i := 0; i < nMut; i++ {
		pc := cases[i%len(cases)]
		fam := []string{}
		if i%3 == 0 {
			fam = []string{"polarity", "typedef"}
		}
		if m := mut.Mutate(pc.P, r, fam...); m != nil {
			add("mutant:"+m.Op, m.P.Text())
		}
	}
	for _, t := range soupTexts(c, c.pick(1500, 40000)) {
		add("G3", t)
	}
	// programs made large in one respect (long chains of cuts, alias chains, many
	// definitions / functions / parameters, long names)
	for i, pc := range cases {
		if i%2 == 0 {
			q, kind := mut.Inflate(pc.P, r, []string{"cut-chain", "", "alias-chain", ""}[(i/2)%4])
			add("inflated-"+kind, q.Text())
		}
	}
	// type-equality probes: the checker compares pairs of (equal or nearly equal, often
	// out-of-phase recursive) names of G2 environments
	for _, p := range genEqProbes(subSeed(c.Seed, 9090), c.pick(100, 2000), c.pick(8, 12)) {
		add("eq-probe", p.text)
	}
	// G2 environments, three fifths with an injected defect (alias cycles with alias tails
	// leading into them, undefined names, duplicate definitions, bad modes ...), half of them
	// with a function that mentions a definition: a verdict is due on ill-formed definitions too
	rd := rand.New(rand.NewSource(subSeed(c.Seed, 9191)))
	for i, n := 0, c.pick(600, 10000); i < n; i++ {
		defs, defect := rtypes.GenDefs(rd, 60)
		t := rtypes.DefsText(defs)
		if i%2 == 0 {
			d := defs[rd.Intn(len(defs))].Name
			t += "let f(x : " + d + ") : " + d + " = fwd self x\n"
		}
		if defect == "" {
			defect = "none"
		}
		if strings.HasPrefix(defect, "alias-cycle") {
			defect = "alias-cycle"
		}
		add("G2-defs:"+defect, t)
	}
	// users of deep chains of branching definitions (type equality must stay polynomial)
	for _, n := range []int{12, 24, 40} {
		defs := rtypes.DeepChains(n, 3, "")
		add("chains", rtypes.DefsText(defs)+"let f(x : ChA0) : ChB0 = fwd self x\nlet g(x : ChB1) : ChA1 = fwd self x\n")
	}
	jobs := make([]sup.Job, len(texts))
	for i, t := range texts {
		jobs[i] = sup.Job{Kind: "typecheck", Text: t, Tag: tags[i], TypeBudget: 5000000, AllocBudget: 1<<30 + 1000000*uint64(len(t))}
	}
	outs := pool.Run(jobs, nil)
	parsed, byTag := 0, map[string]int{}
	for _, o := range outs {
		c.Evaluations++
		if o.Res == nil && !o.Died() {
			c.Inconc("watchdog")
			continue
		}
		if sig := tcTotality(o); sig != "" {
			w := map[string]interface{}{"program": o.Job.Text, "source": o.Job.Tag}
			if o.Died() {
				w["stderr"] = clip(o.Deaths[0], 5000)
			}
			if o.PostDeath != "" {
				w["stderr"] = clip(o.PostDeath, 5000)
			}
			if o.Res != nil {
				w["verdict_error"] = o.Res.TcErr
				w["steps_after_verdict"] = o.Res.TcStepsAfter
			}
			c.Violation(sig, w)
			continue
		}
		if o.Res != nil && o.Res.ParseOK {
			parsed++
			t := o.Job.Tag
			if i := strings.Index(t, ":"); i > 0 {
				t = t[:i]
			}
			byTag[t]++
			c.Nontrivial(o.Job.Text)
			if len(c.Samples) < 4 && o.Job.Tag == "G3" {
				c.Sample(map[string]interface{}{"source": o.Job.Tag, "text": clip(o.Job.Text, 300), "verdict": clip(o.Res.TcErr, 120)})
			}
		}
	}
	c.Extra["texts_that_parsed"] = parsed
	c.Extra["parsed_by_source"] = byTag
	return c.Finish()
}
