package main

import (
	"fmt"
	"os"
	"path/filepath"
	"verif/sup"
)

// smoke: run every example file in the three modes and print what the monitor saw.
func smoke(pool *sup.Pool) int {
	files, _ := filepath.Glob("/repo/examples/*.grits")
	var jobs []sup.Job
	for _, f := range files {
		b, _ := os.ReadFile(f)
		for _, m := range []string{"async", "sync", "np"} {
			jobs = append(jobs, sup.Job{Kind: "run", Text: string(b), Mode: m, Tag: filepath.Base(f), EventBudget: 2000000})
		}
	}
	outs := pool.Run(jobs, nil)
	for _, o := range outs {
		switch {
		case o.Died():
			fmt.Printf("%-34s %-5s DIED %s\n", o.Job.Tag, o.Job.Mode, sup.DeathSig(o.Deaths[0]))
		case o.Res == nil:
			fmt.Printf("%-34s %-5s HUNG\n", o.Job.Tag, o.Job.Mode)
		case !o.Res.ParseOK:
			fmt.Printf("%-34s %-5s parse error: %s\n", o.Job.Tag, o.Job.Mode, o.Res.ParseErr)
		case !o.Res.TcOK:
			fmt.Printf("%-34s %-5s type error: %.80s\n", o.Job.Tag, o.Job.Mode, o.Res.TcErr)
		default:
			r := o.Res.Run
			fmt.Printf("%-34s %-5s q=%v wd=%v over=%v ev=%d spawned=%d prints=%d/%d live=%d zero=%d %dus\n", o.Job.Tag, o.Job.Mode, r.Quiescent, r.Watchdog, r.Overrun, r.Events, r.Spawned, len(r.Stdout), len(r.HookPrints), len(r.Live), r.ZeroMsg, r.ElapsedUs)
			for _, l := range r.Live {
				fmt.Printf("      live %s:%s%v top=%v\n", l.State, l.Form, l.Providers, l.OnTop)
			}
		}
	}
	return 0
}
