package main

import (
	"fmt"
	"math/rand"
	"sort"
	"strings"

	vast "verif/ast"
	"verif/gen"
	"verif/mut"
	"verif/ref/sem"
	"verif/ref/typing"
	"verif/sup"
)

// ---------------------------------------------------------------- C14

func mapMS(ms string, labels map[string]string) string {
	cnt := parseMS(ms)
	var ls []string
	for l, n := range cnt {
		nl, ok := labels[l]
		if !ok {
			nl = l
		}
		for i := 0; i < n; i++ {
			ls = append(ls, nl)
		}
	}
	return sem.MS(ls)
}

func checkC14() int {
	c := NewCheck("C14")
	pool := newPool()
	r := rand.New(rand.NewSource(subSeed(c.Seed, 1414)))
	nProg := c.pick(250, 1500)
	c.Rule = "G1 programs (split / multi-name heavy, recursion, explicit provider names; plus parallel compositions of 12 programs with 30..60 top-level processes) and, for each, alpha-equivalent variants: benign renaming of every bound name, function, type and label; adversarial renaming drawing bound names, parameters and top-level names from a pool of three identifiers (coincidences across scopes, never capture: a binder avoids the names still owed a use and the provider alias); permutation of declarations and of case branches; oracle: the same typechecking verdict, and in async and sync mode (np too when contraction-free) the same printed multiset up to the label map and the same clean completion; non-trivial = distinct program with >= 1 adversarial variant that was run"
	c.Assumptions = []string{"variants the reference typechecker R1 does not accept are transformation bugs: skipped and counted, never reported", "exact quiescence"}
	cases := genCases(c, nProg, 14, func(i int) *gen.Opt {
		o := gen.Opt{MaxSplit: 4, Pol: 2, Alias: 35, ExplicitSelf: 15, ExplicitProv: 20, Exec: 10, Print: 14, TopMax: 3, Fuel: 3, MultiProv: 35, Drop: 15, Split: 28, Mixed: i%4 == 0, MainMode: []vast.Mode{vast.Rep, vast.Mul, vast.Rep, vast.Lin}[i%4]}
		return &o
	})
	// programs made large in one respect (many parameters next to functions whose names extend
	// one another, long names, padding): their variants rename the functions
	{
		ir := rand.New(rand.NewSource(subSeed(c.Seed, 1415)))
		n := len(cases)
		for i := 0; i < n; i += 8 {
			q, kind := mut.Inflate(cases[i].P, ir, []string{"many-params", "", "many-params", "long-names"}[(i/8)%4])
			if typing.Check(q).Kind != typing.Accept {
				continue
			}
			m := sem.New(q)
			if !m.Lazy(4000000) {
				continue
			}
			cases = append(cases, &progCase{ID: cases[i].ID + "-" + kind, P: q, Text: q.Text(), Contr: cases[i].Contr, LazyMS: sem.MS(m.Prints), LazySteps: m.Steps, Source: "G1-inflated", Feat: q.Feat})
		}
	}
	// wide programs: parallel compositions of 12 programs (30..60 top-level processes); their
	// variants permute the declarations, so which processes are declared last changes
	cases = append(cases, wideCases(c, c.pick(20, 80), 12, 35, nil)...)
	type variant struct {
		base   *progCase
		kind   string
		p      *vast.Program
		text   string
		labels map[string]string
	}
	var vs []*variant
	skipped := 0
	for _, pc := range cases {
		vs = append(vs, &variant{base: pc, kind: "original", p: pc.P, text: pc.Text, labels: map[string]string{}})
		mk := func(kind string, q *vast.Program, ren *mut.Renaming) {
			if v := typing.Check(q); v.Kind != typing.Accept {
				skipped++
				return
			}
			labels := map[string]string{}
			if ren != nil {
				labels = ren.Labels
			}
			vs = append(vs, &variant{base: pc, kind: kind, p: q, text: q.Text(), labels: labels})
		}
		q, ren := mut.Rename(pc.P, r, false)
		mk("benign", q, ren)
		nAdv := c.pick(2, 4)
		for k := 0; k < nAdv; k++ {
			q, ren = mut.Rename(pc.P, r, true)
			if k%2 == 1 {
				q = mut.Permute(q, r)
			}
			mk("adversarial", q, ren)
		}
		mk("permuted", mut.Permute(pc.P, r), nil)
	}
	var jobs []sup.Job
	var meta []*variant
	var modeOf []string
	for i, v := range vs {
		modes := []string{"async", "sync"}
		if !v.base.Contr {
			modes = append(modes, "np")
		}
		for k, m := range modes {
			cfg := cfgFor(c.Seed, i, k, []string{m})
			cfg.Mode = m
			jobs = append(jobs, sup.Job{Kind: "run", Text: v.text, Tag: v.kind, Mode: m, Monitor: cfg.Monitor, Procs: cfg.Procs, Profile: cfg.Profile, Seed: uint64(i), EventBudget: eventBudget(v.base)})
			meta = append(meta, v)
			modeOf = append(modeOf, m)
		}
	}
	outs := pool.Run(jobs, nil)
	// reference observation per (program, mode): from the original
	type key struct {
		id, mode string
	}
	ref := map[key]string{}
	refClean := map[key]bool{}
	for i, o := range outs {
		v := meta[i]
		if v.kind == "original" && accepted(o) && !o.Died() && o.Res.Run.Quiescent {
			k := key{v.base.ID, modeOf[i]}
			ref[k] = sem.MS(o.Res.Run.Stdout)
			cl := true
			if modeOf[i] != "np" {
				cl, _ = cleanFinal(modeOf[i], o.Res.Run.Live, true)
			}
			refClean[k] = cl
		}
	}
	byKind := map[string]int{}
	for i, o := range outs {
		v := meta[i]
		c.Evaluations++
		if v.kind == "original" {
			continue
		}
		w := map[string]interface{}{"original": v.base.Text, "variant": v.text, "transform": v.kind, "mode": modeOf[i]}
		if o.Died() {
			w["stderr"] = clip(o.Deaths[0], 3000)
			c.Violation(fmt.Sprintf("a %s variant dies although the original runs (%s)", v.kind, normDeath(o.Deaths[0])), w)
			continue
		}
		if o.Res == nil {
			c.Inconc("watchdog")
			continue
		}
		if !o.Res.ParseOK || !o.Res.TcOK {
			w["error"] = o.Res.ParseErr + o.Res.TcErr
			c.Violation(fmt.Sprintf("the verdict changes under a %s variant: %s", v.kind, errClass(o.Res.ParseErr+o.Res.TcErr)), w)
			continue
		}
		run := o.Res.Run
		k := key{v.base.ID, modeOf[i]}
		want, ok := ref[k]
		if !ok || run.Watchdog || run.Overrun {
			c.Inconc("no-reference-or-watchdog")
			continue
		}
		got := sem.MS(run.Stdout)
		if mapMS(want, v.labels) != got {
			w["original_multiset"] = want
			w["variant_multiset"] = got
			c.Violation(fmt.Sprintf("the printed multiset changes under a %s variant (mode %s)", v.kind, modeOf[i]), w)
			continue
		}
		clean := true
		if modeOf[i] != "np" {
			clean, _ = cleanFinal(modeOf[i], run.Live, true)
		}
		if clean != refClean[k] {
			w["variant_final_table"] = liveStrings(run.Live)
			c.Violation(fmt.Sprintf("completion changes under a %s variant (mode %s): processes left stuck", v.kind, modeOf[i]), w)
			continue
		}
		byKind[v.kind]++
		if v.kind == "adversarial" {
			c.Nontrivial(v.base.ID)
			if len(c.Samples) < 3 && len(v.text) < 1500 && strings.Contains(v.text, "split") {
				c.Sample(map[string]interface{}{"adversarial_variant": v.text, "mode": modeOf[i], "multiset": got})
			}
		}
	}
	var ks []string
	for k := range byKind {
		ks = append(ks, k)
	}
	sort.Strings(ks)
	c.Extra["variant_runs_that_agreed_by_transform"] = byKind
	c.Extra["variants_skipped_because_the_reference_rejects_them"] = skipped
	c.Extra["programs"] = len(cases)
	return c.Finish()
}
