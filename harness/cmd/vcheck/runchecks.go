package main

import (
	"fmt"
	"go/ast"
	"go/parser"
	"go/token"
	"math/rand"
	"os"
	"path/filepath"
	"regexp"
	"sort"
	"strconv"
	"strings"

	vast "verif/ast"
	"verif/gen"
	"verif/mut"
	"verif/ref/sem"
	"verif/ref/typing"
	"verif/sup"
)

// progCase is one program of the workload.
type progCase struct {
	ID        string
	P         *vast.Program // nil for corpus programs
	Text      string
	Contr     bool
	LazyMS    string
	LazySteps int
	Source    string
	Feat      map[string]int
}

// genCases generates n closed, terminating, R1-accepted programs.
func genCases(c *Check, n int, salt int, opt func(i int) *gen.Opt) []*progCase {
	var out []*progCase
	for i := 0; len(out) < n; i++ {
		s := subSeed(c.Seed, salt*1000003+i)
		var o *gen.Opt
		if opt != nil {
			o = opt(i)
		}
		p, _, _ := gen.Generate(s, o)
		if v := typing.Check(p); v.Kind != typing.Accept {
			fmt.Fprintf(os.Stderr, "HARNESS BUG: generated program rejected by R1: %s\n%s\n", v, p.Text())
			os.Exit(2)
		}
		// a third of the programs is used in an adversarially renamed form (bound names drawn
		// from a pool of three identifiers): same program, many identifier coincidences
		if h := subSeed(s, 77); h%3 == 0 {
			q, _ := mut.Rename(p, rand.New(rand.NewSource(h)), true)
			if typing.Check(q).Kind == typing.Accept {
				q.Feat = p.Feat
				q.Feat["adversarial-names"]++
				p = q
			}
		}
		m := sem.New(p)
		if !m.Lazy(400000) {
			fmt.Fprintf(os.Stderr, "HARNESS BUG: generated program diverges in R2 (seed %d)\n%s\n", s, p.Text())
			os.Exit(2)
		}
		if ok, why := m.FinalOK(); !ok {
			fmt.Fprintf(os.Stderr, "HARNESS BUG: reference run of a generated program does not complete: %s\n%s\n", why, p.Text())
			os.Exit(2)
		}
		out = append(out, &progCase{ID: fmt.Sprintf("g%d", s), P: p, Text: p.Text(), Contr: p.UsesContraction(), LazyMS: sem.MS(m.Prints), LazySteps: m.Steps, Source: "G1", Feat: p.Feat})
	}
	return out
}

// wideCases: n programs, each the parallel composition of k independent generated programs
// (30..60 top-level processes, dozens of functions, many processes active at once).
func wideCases(c *Check, n, k int, salt int, opt func(i int) *gen.Opt) []*progCase {
	parts := genCases(c, n*k, salt, opt)
	var out []*progCase
	for i := 0; i < n; i++ {
		var ps []*vast.Program
		contr := false
		for _, pc := range parts[i*k : (i+1)*k] {
			ps = append(ps, pc.P)
			contr = contr || pc.Contr
		}
		p := mut.Compose(ps)
		if v := typing.Check(p); v.Kind != typing.Accept {
			fmt.Fprintf(os.Stderr, "HARNESS BUG: composed program rejected by R1: %s\n%s\n", v, p.Text())
			os.Exit(2)
		}
		m := sem.New(p)
		if !m.Lazy(400000 * k) {
			fmt.Fprintf(os.Stderr, "HARNESS BUG: composed program diverges in R2\n%s\n", p.Text())
			os.Exit(2)
		}
		if ok, why := m.FinalOK(); !ok {
			fmt.Fprintf(os.Stderr, "HARNESS BUG: reference run of a composed program does not complete: %s\n%s\n", why, p.Text())
			os.Exit(2)
		}
		out = append(out, &progCase{ID: fmt.Sprintf("w%s", parts[i*k].ID), P: p, Text: p.Text(), Contr: contr, LazyMS: sem.MS(m.Prints), LazySteps: m.Steps, Source: "G1-composed", Feat: p.Feat})
	}
	return out
}

// corpusTexts: the example files plus every raw string literal of the repo's tests.
func corpusTexts() map[string]string {
	out := map[string]string{}
	files, _ := filepath.Glob("/repo/examples/*.grits")
	more, _ := filepath.Glob("/repo/examples/*/*.grits")
	for _, f := range append(files, more...) {
		if b, err := os.ReadFile(f); err == nil {
			out[strings.TrimPrefix(f, "/repo/")] = string(b)
		}
	}
	tests, _ := filepath.Glob("/repo/*/*_test.go")
	for _, f := range tests {
		fset := token.NewFileSet()
		af, err := parser.ParseFile(fset, f, nil, 0)
		if err != nil {
			continue
		}
		k := 0
		ast.Inspect(af, func(n ast.Node) bool {
			if bl, ok := n.(*ast.BasicLit); ok && bl.Kind == token.STRING && strings.HasPrefix(bl.Value, "`") {
				s := strings.Trim(bl.Value, "`")
				if len(strings.TrimSpace(s)) > 8 {
					k++
					out[fmt.Sprintf("%s#%d", strings.TrimPrefix(f, "/repo/"), k)] = s
				}
			}
			return true
		})
	}
	return out
}

func sortedKeys(m map[string]string) []string {
	var ks []string
	for k := range m {
		ks = append(ks, k)
	}
	sort.Strings(ks)
	return ks
}

// closedCorpus: corpus programs that parse, typecheck and have no assumptions.
func closedCorpus(pool *sup.Pool) []*progCase {
	texts := corpusTexts()
	keys := sortedKeys(texts)
	var jobs []sup.Job
	for _, k := range keys {
		jobs = append(jobs, sup.Job{Kind: "typecheck", Text: texts[k], Tag: k})
	}
	var out []*progCase
	for _, o := range pool.Run(jobs, nil) {
		if o.Res != nil && o.Res.ParseOK && o.Res.TcOK && o.Res.Counts != nil && o.Res.Counts.Assumed == 0 && o.Res.Counts.Procs > 0 && !o.Died() {
			out = append(out, &progCase{ID: o.Job.Tag, Text: o.Job.Text, Source: "corpus", Contr: strings.Contains(o.Job.Text, "split") || regexp.MustCompile(`prc\[[^\]]*,`).MatchString(o.Job.Text)})
		}
	}
	return out
}

type runCfg struct {
	Mode    string
	Monitor bool
	Procs   int
	Profile string
	Entry   string
}

func (r runCfg) String() string {
	return fmt.Sprintf("%s/mon=%v/procs=%d/%s/%s", r.Mode, r.Monitor, r.Procs, r.Profile, r.Entry)
}

var profileNames = []string{"none", "gosched", "sleep", "delay-fwd", "delay-provider", "delay-client", "delay-dup", "delay-print", "delay-call"}
var procChoices = []int{1, 2, 4, 16}

// cfgFor derives the k-th configuration of program i deterministically from the seed.
func cfgFor(seed int64, i, k int, modes []string) runCfg {
	h := uint64(subSeed(seed, i*131+k*7+99))
	return runCfg{
		Mode:    modes[k%len(modes)],
		Monitor: (h>>3)%4 == 0,
		Procs:   procChoices[(h>>8)%4],
		Profile: profileNames[(h>>16)%uint64(len(profileNames))],
	}
}

func jobFor(pc *progCase, cfg runCfg, runSeed uint64, budget uint64) sup.Job {
	return sup.Job{Kind: "run", Text: pc.Text, Tag: pc.ID, Mode: cfg.Mode, Monitor: cfg.Monitor, Procs: cfg.Procs, Profile: cfg.Profile, Entry: cfg.Entry, Seed: runSeed, EventBudget: budget}
}

func eventBudget(pc *progCase) uint64 {
	if pc.P == nil {
		return 5000000
	}
	// every reference step costs a handful of monitor events; 50x headroom plus a floor
	return uint64(pc.LazySteps)*20*50 + 20000
}

var reProc = regexp.MustCompile(`s?prc\[[^\]]*\]`)
var reHex = regexp.MustCompile(`0x[0-9a-f]+`)
var reNum = regexp.MustCompile(`[0-9]+`)
var reQuoted = regexp.MustCompile(`found for [A-Za-z0-9_']+`)

// normDeath makes a death signature independent of generated names.
func normDeath(stderr string) string {
	s := sup.DeathSig(stderr)
	s = reProc.ReplaceAllString(s, "prc[_]")
	s = reHex.ReplaceAllString(s, "0x_")
	s = reQuoted.ReplaceAllString(s, "found for _")
	s = reNum.ReplaceAllString(s, "N")
	s = strings.Join(strings.Fields(s), " ")
	return s
}

type runOut struct {
	pc  *progCase
	cfg runCfg
	o   *sup.Outcome
}

// runMatrix runs every program under its configurations. nCfg configurations per program.
func runMatrix(c *Check, pool *sup.Pool, cases []*progCase, nCfg int, modes func(pc *progCase) []string) []runOut {
	var jobs []sup.Job
	var meta []runOut
	for i, pc := range cases {
		ms := modes(pc)
		for k := 0; k < nCfg; k++ {
			cfg := cfgFor(c.Seed, i, k, ms)
			jobs = append(jobs, jobFor(pc, cfg, uint64(subSeed(c.Seed, i*977+k)), eventBudget(pc)))
			meta = append(meta, runOut{pc: pc, cfg: cfg})
		}
	}
	outs := pool.Run(jobs, nil)
	for i := range meta {
		meta[i].o = outs[i]
	}
	return meta
}

func liveStrings(l []sup.LiveEntry) []string {
	var s []string
	for _, e := range l {
		s = append(s, fmt.Sprintf("%s:%s%v top=%v", e.State, e.Form, e.Providers, e.OnTop))
	}
	return s
}

// cleanFinal applies C02's rule to the blocked-on table of a finished run.
func cleanFinal(mode string, live []sup.LiveEntry, strict bool) (bool, string) {
	for _, e := range live {
		switch mode {
		case "async":
			if strict || !(e.State == "recv" && e.OnTop) {
				return false, fmt.Sprintf("async: %s:%s still alive", e.State, e.Form)
			}
		case "sync":
			if e.State == "send" && (e.OnTop || !strict) {
				continue
			}
			if !strict && e.State == "recv" && e.OnTop {
				continue
			}
			return false, fmt.Sprintf("sync: %s:%s top=%v", e.State, e.Form, e.OnTop)
		}
	}
	return true, ""
}

func witnessOf(r runOut) map[string]interface{} {
	w := map[string]interface{}{"program": r.pc.Text, "program_id": r.pc.ID, "config": r.cfg.String(), "job": r.o.Job}
	if r.o.Died() {
		w["deaths"] = len(r.o.Deaths)
		w["attempts"] = r.o.Attempts
		w["stderr"] = clip(r.o.Deaths[0], 6000)
	}
	if r.o.Res != nil && r.o.Res.Run != nil {
		w["stdout"] = r.o.Res.Run.Stdout
		w["live"] = liveStrings(r.o.Res.Run.Live)
		w["run_end"] = fmt.Sprintf("quiescent=%v parked_outside_hooks=%v watchdog=%v overrun=%v premature=%v elapsed_us=%d events=%d", r.o.Res.Run.Quiescent, r.o.Res.Run.ParkedOutsideHooks, r.o.Res.Run.Watchdog, r.o.Res.Run.Overrun, r.o.Res.Run.Premature, r.o.Res.Run.ElapsedUs, r.o.Res.Run.Events)
	}
	return w
}

func modesAll(pc *progCase) []string       { return []string{"async", "sync", "np"} }
func modesPolarized(pc *progCase) []string { return []string{"async", "sync"} }

func featKeys(cases []*progCase) map[string]int {
	f := map[string]int{}
	for _, pc := range cases {
		for k, v := range pc.Feat {
			f[k] += v
		}
	}
	return f
}

// accepted: the run job got as far as executing (parse and typecheck succeeded).
func accepted(o *sup.Outcome) bool {
	return o.Res != nil && o.Res.ParseOK && o.Res.TcOK && o.Res.Run != nil
}

// ---------------------------------------------------------------- C01

func checkC01() int {
	c := NewCheck("C01")
	pool := newPool()
	nProg := c.pick(450, 2500)
	nCfg := c.pick(9, 18)
	cases := genCases(c, nProg, 1, func(i int) *gen.Opt {
		if i%3 != 0 {
			return nil
		}
		// duplication of processes that are poised at calls, forwards and cuts
		o := gen.Opt{MaxSplit: 4, Pol: 2, Alias: 30, ExplicitSelf: 45, ExplicitProv: 15, Exec: 10, Print: 8, TopMax: 3, Fuel: 3, MultiProv: 60, Drop: 12, Split: 35, Tail: 30, TopCall: 50, Mixed: i%2 == 0, MainMode: []vast.Mode{vast.Rep, vast.Lin, vast.Mul, vast.Lin}[i%4]}
		return &o
	})
	cases = append(cases, closedCorpus(pool)...)
	c.Rule = "G1 programs (type-directed generator, closed, terminating) and closed corpus programs that Grits' typechecker accepts, each run in async/sync/np under seeded configurations (monitor, GOMAXPROCS, perturbation profile); non-trivial = distinct program that spawned >= 3 processes and exchanged >= 4 messages in some run"
	c.Assumptions = []string{"a worker death is attributed to the job it had started", "deaths while typechecking are C09's business and make the program 'not accepted' here"}
	// the same programs made large in one respect (many parameters next to functions whose
	// names extend one another, alias chains, padding, long names): one form each for a tenth
	{
		ir := rand.New(rand.NewSource(subSeed(c.Seed, 101)))
		for i, pc := range cases {
			if i%10 == 0 && pc.P != nil {
				q, kind := mut.Inflate(pc.P, ir, []string{"many-params", ""}[(i/10)%2])
				if typing.Check(q).Kind == typing.Accept {
					cases = append(cases, &progCase{ID: pc.ID + "-" + kind, P: q, Text: q.Text(), Contr: pc.Contr, LazyMS: pc.LazyMS, LazySteps: pc.LazySteps + 200, Source: "G1-inflated", Feat: q.Feat})
				}
			}
		}
	}
	outs := runMatrix(c, pool, cases, nCfg, modesAll)
	// long programs (thousands of rule firings, deep recursion of one process, hundreds of
	// live processes) in the three modes with the monitor attached
	for _, k := range []int{8, c.pick(9, 10)} {
		pc := &progCase{ID: fmt.Sprintf("long%d", k), Text: longProgram(k), Source: "long"}
		for _, cfg := range []runCfg{{Mode: "async", Monitor: true, Procs: 4, Profile: "none"}, {Mode: "sync", Monitor: true, Procs: 16, Profile: "none"}, {Mode: "np", Monitor: true, Procs: 2, Profile: "none"}, {Mode: "async", Procs: 16, Profile: "gosched"}} {
			o := pool.Run([]sup.Job{jobFor(pc, cfg, uint64(k), 50000000)}, nil)[0]
			outs = append(outs, runOut{pc: pc, cfg: cfg, o: o})
		}
	}
	fps := map[uint64]bool{}
	deaths := map[string]int{}
	notAccepted := 0
	byMode := map[string]int{}
	for _, r := range outs {
		c.Evaluations++
		o := r.o
		if o.Died() {
			// did it die before the run started?
			sig := normDeath(o.Deaths[0])
			if strings.Contains(o.Deaths[0], "typecheckForm") || strings.Contains(o.Deaths[0], "process.Typecheck") || strings.Contains(o.Deaths[0], "typecheckFunctionsAndProcesses") {
				notAccepted++
				continue
			}
			deaths[sig]++
			full := fmt.Sprintf("mode=%s contraction=%v death=%s", r.cfg.Mode, r.pc.Contr, sig)
			c.Violation(full, witnessOf(r))
			continue
		}
		if o.Res == nil {
			c.Inconc("watchdog")
			continue
		}
		if !accepted(o) {
			notAccepted++
			continue
		}
		run := o.Res.Run
		byMode[r.cfg.Mode]++
		fps[run.Fingerprint] = true
		if run.ZeroMsg > 0 {
			c.Violation(fmt.Sprintf("mode=%s contraction=%v zero-valued message received (closed channel)", r.cfg.Mode, r.pc.Contr), witnessOf(r))
		}
		if run.Watchdog {
			c.Inconc("run-watchdog")
		}
		if run.Spawned >= 3 && run.Rules != nil {
			msgs := 0
			for _, n := range run.Rules {
				msgs += n
			}
			if msgs >= 4 {
				c.Nontrivial(r.pc.ID)
			}
		}
		if len(c.Samples) < 3 && r.pc.P != nil && run.Spawned > 8 {
			c.Sample(map[string]interface{}{"program": r.pc.Text, "config": r.cfg.String(), "events": run.Events, "spawned": run.Spawned, "stdout": run.Stdout})
		}
	}
	c.Extra["programs"] = len(cases)
	c.Extra["configs_per_program"] = nCfg
	c.Extra["runs_by_mode"] = byMode
	c.Extra["distinct_interleaving_fingerprints"] = len(fps)
	c.Extra["death_signatures"] = deaths
	c.Extra["not_accepted_or_died_in_checker"] = notAccepted
	c.Extra["generator_features"] = featKeys(cases)
	if len(fps) < 2 {
		c.Inconc("fewer than 2 distinct schedules observed")
	}
	return c.Finish()
}

// ---------------------------------------------------------------- C02

func checkC02() int {
	c := NewCheck("C02")
	pool := newPool()
	nProg := c.pick(450, 2500)
	nCfg := c.pick(6, 14)
	cases := genCases(c, nProg, 2, func(i int) *gen.Opt {
		if i%3 == 2 {
			// parked servers holding the whole context (often padded to 9..14 channels) that are
			// split, half-dropped or dropped; bodies that cut and then hand everything to a call
			o := gen.Opt{MaxSplit: 4, Pol: 2, Alias: 30, ExplicitSelf: 15, ExplicitProv: 10, Exec: 10, Print: 10, TopMax: 3, Fuel: 3, MultiProv: 40, Drop: 20, Split: 20, Tail: 35, Capture: 35, Wide: 50, MainMode: []vast.Mode{vast.Rep, vast.Rep, vast.Aff}[i%3]}
			return &o
		}
		if i%3 == 0 {
			return nil
		}
		// drop / split heavy
		o := gen.Opt{MaxSplit: 4, Pol: 2, Alias: 30, ExplicitSelf: 10, ExplicitProv: 10, Exec: 10, Print: 8, TopMax: 3, Fuel: 3, MultiProv: 35, Drop: 35, Split: 25, Mixed: i%6 == 1, MainMode: []vast.Mode{vast.Rep, vast.Aff, vast.Rep, vast.Lin}[i%4]}
		return &o
	})
	nGen := len(cases)
	cases = append(cases, closedCorpus(pool)...)
	c.Rule = "G1 programs (closed, fully consumed, terminating; a third drop/split heavy, a third capture heavy) in async and sync polarized mode under seeded configurations; oracle: blocked-on table at exact quiescence (async: empty; sync: only senders on unconsumed top-level channels), event budget 50x the reference step count; corpus programs with the weaker rule (no receiver blocked off the top-level interface); non-trivial = distinct program with >= 3 processes that reached quiescence"
	c.Assumptions = []string{"no starvation: quiescence is decided when no process is running and no blocked operation can complete (hook accounting), not by the 50 ms heartbeat", "termination of generated programs is by construction and confirmed by the reference run"}
	outs := runMatrix(c, pool, cases, nCfg, modesPolarized)
	// plus: the real entry point with its heartbeat on a tenth of the programs
	var hbJobs []sup.Job
	var hbMeta []runOut
	for i := 0; i < nGen; i += 10 {
		cfg := runCfg{Mode: "async", Procs: 4, Profile: "none", Entry: "init"}
		hbJobs = append(hbJobs, jobFor(cases[i], cfg, 0, eventBudget(cases[i])))
		hbMeta = append(hbMeta, runOut{pc: cases[i], cfg: cfg})
	}
	for i, o := range pool.Run(hbJobs, nil) {
		hbMeta[i].o = o
	}
	outs = append(outs, hbMeta...)
	fps := map[uint64]bool{}
	premature, dropsSeen, dupSeen := 0, 0, 0
	for _, r := range outs {
		c.Evaluations++
		o := r.o
		if o.Died() || !accepted(o) {
			// not this property's business (C01 / C09)
			if o.Res == nil && !o.Died() {
				c.Inconc("watchdog")
			}
			continue
		}
		run := o.Res.Run
		fps[run.Fingerprint] = true
		if heartbeatEarly(run) {
			w := witnessOf(r)
			w["silence_seen_by_the_receiver_us"] = run.ExpirySilenceUs
			w["inactivity_interval_us"] = run.TimeoutUs
			c.Violation("quiescence is declared (run cancelled) although the heartbeat receiver had received a heartbeat less than its inactivity interval before", w)
			continue
		}
		if run.Premature {
			premature++
			c.Inconc("heartbeat-premature")
			continue
		}
		if run.Watchdog {
			c.Inconc("run-watchdog")
			continue
		}
		if run.Overrun {
			c.Violation(fmt.Sprintf("mode=%s livelock: event budget exceeded", r.cfg.Mode), witnessOf(r))
			continue
		}
		strict := r.pc.P != nil
		if ok, why := cleanFinal(r.cfg.Mode, run.Live, strict); !ok {
			stuck := map[string]bool{}
			for _, e := range run.Live {
				stuck[e.State+":"+e.Form] = true
			}
			var ks []string
			for k := range stuck {
				ks = append(ks, k)
			}
			sort.Strings(ks)
			_ = why
			c.Violation(fmt.Sprintf("mode=%s entry=%s stuck at quiescence: %s", r.cfg.Mode, r.cfg.Entry, strings.Join(ks, " ")), witnessOf(r))
			continue
		}
		if run.Kinds["dropfwd"] > 0 {
			dropsSeen++
		}
		if run.Kinds["split"] > 0 {
			dupSeen++
		}
		if run.Spawned >= 3 {
			c.Nontrivial(r.pc.ID)
		}
		if len(c.Samples) < 3 && run.Kinds["dropfwd"] > 1 {
			c.Sample(map[string]interface{}{"program": r.pc.Text, "config": r.cfg.String(), "events": run.Events, "final_table": liveStrings(run.Live), "forms_executed": run.Kinds})
		}
	}
	c.Extra["programs"] = len(cases)
	c.Extra["distinct_interleaving_fingerprints"] = len(fps)
	c.Extra["heartbeat_entry_runs"] = len(hbJobs)
	c.Extra["heartbeat_premature"] = premature
	c.Extra["runs_with_drop_propagation"] = dropsSeen
	c.Extra["runs_with_split"] = dupSeen
	c.Extra["generator_features"] = featKeys(cases)
	return c.Finish()
}

// ---------------------------------------------------------------- C03

func checkC03() int {
	c := NewCheck("C03")
	pool := newPool()
	nProg := c.pick(350, 2000)
	nCfg := c.pick(10, 16)
	cases := genCases(c, nProg, 3, nil)
	cases = append(cases, closedCorpus(pool)...)
	c.Rule = "every program is run under nCfg seeded configurations over {async, sync} x monitor x GOMAXPROCS{1,2,4,16} x 8 perturbation profiles, plus np when it has no split and no multi-name prc; oracle: all runs of one program agree on (printed-label multiset, clean completion); stdout is cross-checked against the print hook and the monitor's PRINT log; non-trivial = distinct program whose runs showed >= 2 distinct interleaving fingerprints and printed >= 1 label"
	c.Assumptions = []string{"exact quiescence (no starvation)", "np mode is compared only for contraction-free programs, as the statement says"}
	outs := runMatrix(c, pool, cases, nCfg, func(pc *progCase) []string {
		if pc.Contr {
			return []string{"async", "sync"}
		}
		return []string{"async", "sync", "np", "async", "sync"}
	})
	// forward targets: contraction-free programs full of tail calls spelt as a cut followed by
	// a forward, with explicit self, so that np is comparable and a callee is often the target
	// of a forward already parked on its control channel when it takes its first step
	fwdCases := genCases(c, c.pick(120, 700), 33, func(i int) *gen.Opt {
		return &gen.Opt{MaxSplit: 0, Pol: 2, Alias: 30, ExplicitSelf: 60, ExplicitProv: 15, Exec: 10, Print: 30, TopMax: 2, Fuel: 3, Tail: 45, CutFwd: 70, MainMode: []vast.Mode{vast.Lin, vast.Rep, vast.Aff, vast.Lin}[i%4], Mixed: i%3 == 0}
	})
	outs = append(outs, runMatrix(c, pool, fwdCases, nCfg, func(pc *progCase) []string {
		if pc.Contr {
			return []string{"async", "sync"}
		}
		return []string{"np", "async", "np", "sync", "np"}
	})...)
	// wide programs: parallel compositions of 12 independent programs (30..60 top-level
	// processes, many calls of different functions at the same instant)
	wide := wideCases(c, c.pick(24, 120), 12, 34, nil)
	outs = append(outs, runMatrix(c, pool, wide, nCfg, func(pc *progCase) []string {
		if pc.Contr {
			return []string{"async", "sync"}
		}
		return []string{"async", "sync", "np"}
	})...)
	// long-running programs (busy for much longer than the heartbeat interval), through the
	// real entry point and through the exact-quiescence entry
	// thousands of processes alive but parked for the whole run (thorough only: parsing and
	// typechecking 4 500 declarations takes Grits half a minute, the known finding N3)
	if c.pick(0, 1) == 1 {
		pc := &progCase{ID: "idle4500", Text: idleProgram(4500), Source: "idle"}
		for _, cfg := range []runCfg{{Mode: "sync", Procs: 16, Profile: "none"}, {Mode: "async", Procs: 16, Profile: "none"}} {
			o := pool.Run([]sup.Job{jobFor(pc, cfg, 4500, 500000000)}, nil)[0]
			outs = append(outs, runOut{pc: pc, cfg: cfg, o: o})
		}
	}
	for _, k := range []int{9, 10, c.pick(10, 11), 13} {
		pc := &progCase{ID: fmt.Sprintf("long%d", k), Text: longProgram(k), Source: "long"}
		if k == 13 {
			// more than 8 000 processes alive at once in the synchronous modes
			for _, cfg := range []runCfg{{Mode: "sync", Procs: 16, Profile: "none"}, {Mode: "async", Procs: 16, Profile: "none"}} {
				o := pool.Run([]sup.Job{jobFor(pc, cfg, uint64(k), 500000000)}, nil)[0]
				outs = append(outs, runOut{pc: pc, cfg: cfg, o: o})
			}
			continue
		}
		for _, cfg := range []runCfg{{Mode: "async", Procs: 16, Profile: "none", Entry: "init"}, {Mode: "np", Procs: 4, Profile: "none", Entry: "init"}, {Mode: "async", Procs: 4, Profile: "none"}, {Mode: "sync", Procs: 16, Profile: "gosched"}, {Mode: "np", Procs: 2, Profile: "none"}} {
			o := pool.Run([]sup.Job{jobFor(pc, cfg, uint64(k), 50000000)}, nil)[0]
			outs = append(outs, runOut{pc: pc, cfg: cfg, o: o})
		}
	}
	type obs struct {
		ms    string
		clean bool
		cfg   runCfg
		r     runOut
	}
	byProg := map[string][]obs{}
	diedBy := map[string][]runOut{}
	fpsBy := map[string]map[uint64]bool{}
	allFps := map[uint64]bool{}
	dups, dupSame := 0, 0
	for _, r := range outs {
		c.Evaluations++
		o := r.o
		if o.Died() {
			diedBy[r.pc.ID] = append(diedBy[r.pc.ID], r)
			continue
		}
		if !accepted(o) {
			if o.Res == nil {
				c.Inconc("watchdog")
			}
			continue
		}
		run := o.Res.Run
		if run.Watchdog || run.Overrun {
			c.Inconc("run-watchdog")
			continue
		}
		if heartbeatEarly(run) {
			w := witnessOf(r)
			w["silence_seen_by_the_receiver_us"] = run.ExpirySilenceUs
			w["inactivity_interval_us"] = run.TimeoutUs
			w["elapsed_us"] = run.ElapsedUs
			c.Violation(fmt.Sprintf("mode=%s a run is cancelled although the heartbeat receiver had received a heartbeat less than its inactivity interval before (completion depends on how long the program runs)", r.cfg.Mode), w)
			continue
		}
		if run.Premature {
			c.Inconc("heartbeat-premature")
			continue
		}
		ms := sem.MS(run.Stdout)
		if hm := sem.MS(run.HookPrints); hm != ms {
			c.Violation(fmt.Sprintf("mode=%s stdout labels differ from the print hook's labels", r.cfg.Mode), witnessOf(r))
		}
		if run.MonPrints >= 0 && run.MonPrints != len(run.Stdout) {
			c.Violation(fmt.Sprintf("mode=%s monitor PRINT log has %+d entries relative to stdout", r.cfg.Mode, run.MonPrints-len(run.Stdout)), witnessOf(r))
		}
		clean := true
		if r.cfg.Mode != "np" {
			clean, _ = cleanFinal(r.cfg.Mode, run.Live, r.pc.P != nil)
		}
		byProg[r.pc.ID] = append(byProg[r.pc.ID], obs{ms, clean, r.cfg, r})
		if fpsBy[r.pc.ID] == nil {
			fpsBy[r.pc.ID] = map[uint64]bool{}
		}
		fpsBy[r.pc.ID][run.Fingerprint] = true
		allFps[run.Fingerprint] = true
		dups += run.Dups
		dupSame += run.DupSameIdent
	}
	multi := 0
	for id, os := range byProg {
		first := os[0]
		// a run that dies with a runtime error while other runs of the same program complete:
		// the outcome depends on the mode / schedule (the death itself is C01's business too)
		if ds := diedBy[id]; len(ds) > 0 {
			x := ds[0]
			w := witnessOf(x)
			w["other_config"] = first.cfg.String()
			w["other_multiset"] = first.ms
			ma, mb := first.cfg.Mode, x.cfg.Mode
			if ma > mb {
				ma, mb = mb, ma
			}
			c.Violation(fmt.Sprintf("nondeterminism: a %s run dies with a runtime error while a %s run of the same program completes (contraction=%v)", x.cfg.Mode, first.cfg.Mode, x.pc.Contr), w)
			continue
		}
		for _, x := range os[1:] {
			if x.ms != first.ms || x.clean != first.clean {
				w := witnessOf(x.r)
				w["other_config"] = first.cfg.String()
				w["other_multiset"] = first.ms
				w["this_multiset"] = x.ms
				what := "multiset"
				if x.ms == first.ms {
					what = "completion"
				}
				ma, mb := first.cfg.Mode, x.cfg.Mode
				if ma > mb {
					ma, mb = mb, ma
				}
				c.Violation(fmt.Sprintf("nondeterminism: %s differs between a %s run and a %s run (contraction=%v)", what, ma, mb, x.r.pc.Contr), w)
				break
			}
		}
		if len(fpsBy[id]) >= 2 && first.ms != "" {
			c.Nontrivial(id)
		}
		if len(fpsBy[id]) >= 2 {
			multi++
		}
		if len(c.Samples) < 3 && len(fpsBy[id]) >= 4 && len(first.ms) > 20 {
			c.Sample(map[string]interface{}{"program": first.r.pc.Text, "runs": len(os), "distinct_fingerprints": len(fpsBy[id]), "multiset_in_every_run": first.ms})
		}
	}
	c.Extra["programs"] = len(cases)
	c.Extra["programs_with_2plus_schedules"] = multi
	c.Extra["duplications_observed"] = dups
	c.Extra["duplications_of_a_process_holding_two_channels_with_one_identifier"] = dupSame
	c.Extra["distinct_interleaving_fingerprints"] = len(allFps)
	c.Extra["generator_features"] = featKeys(cases)
	if len(allFps) < 2 {
		c.Inconc("fewer than 2 distinct schedules observed")
	}
	return c.Finish()
}

// ---------------------------------------------------------------- C04

func checkC04() int {
	c := NewCheck("C04")
	pool := newPool()
	nProg := c.pick(450, 2500)
	nCfg := c.pick(6, 12)
	cases := genCases(c, nProg, 4, func(i int) *gen.Opt {
		if i%9 == 4 {
			// servers capturing a context padded to 9..14 channels, split and used twice (or
			// half-dropped): duplication of processes with many free names
			o := gen.Opt{MaxSplit: 3, Pol: 2, Alias: 30, ExplicitSelf: 10, ExplicitProv: 10, Exec: 10, Print: 25, TopMax: 3, Fuel: 2, MultiProv: 50, Drop: 10, Split: 15, Capture: 45, Wide: 60, MainMode: []vast.Mode{vast.Rep, vast.Mul, vast.Rep}[i%3]}
			return &o
		}
		if i%3 != 0 {
			return nil
		}
		// print heavy, small: prints around every communication
		o := gen.Opt{MaxSplit: 2, Pol: 2, Alias: 30, ExplicitSelf: 10, ExplicitProv: 10, Exec: 10, Print: 35, TopMax: 2, Fuel: 2, MultiProv: 20, Drop: 10, Split: 12, Mixed: i%2 == 0, MainMode: []vast.Mode{vast.Lin, vast.Rep, vast.Mul, vast.Aff}[i%4]}
		return &o
	})
	c.Rule = "G1 programs with a unique label per print site, run in async/sync/np under seeded configurations; oracle R2 (independent SAX semantics): the stdout multiset must be the unique reference multiset (contraction-free) or a member of the admitted set (bounded search over copy timings; beyond the bound: per-label lower bound and equal support), and the stdout order must be a sequence the reference can produce (guided replay); non-trivial = distinct program that printed >= 2 labels from >= 2 processes"
	c.Assumptions = []string{"stdout order is the order of write(2) calls on one pipe, which respects happens-before", "R2 and the generator are the trusted base; R2's lazy run reproduces Grits on contraction-free programs"}
	outs := runMatrix(c, pool, cases, nCfg, modesAll)
	exact, interval, seqDecided, seqBounded, lazyDecided := 0, 0, 0, 0, 0
	for _, r := range outs {
		c.Evaluations++
		o := r.o
		if o.Died() || !accepted(o) {
			if o.Res == nil && !o.Died() {
				c.Inconc("watchdog")
			}
			continue
		}
		run := o.Res.Run
		if run.Watchdog || run.Overrun || !run.Quiescent {
			c.Inconc("run-not-quiescent")
			continue
		}
		pc := r.pc
		got := sem.MS(run.Stdout)
		// The guided replay decides multiset and order at once: if the observed sequence can be
		// produced, its multiset is an admitted one.
		// first the cheap search (lazy copy discipline: what the polarized interpreters do); only
		// if that finds no run, the search over all copy / split / drop timings
		adm, decided := false, false
		if got == pc.LazyMS && sem.New(pc.P).AdmitsLazy(run.Stdout, &sem.Search{MaxState: 4000, MaxSteps: 400000}) {
			adm, decided = true, true
			lazyDecided++
		} else {
			s := &sem.Search{MaxState: c.pick(3000, 8000), MaxSteps: 400000}
			adm, decided = sem.New(pc.P).Admits(run.Stdout, s)
		}
		w := witnessOf(r)
		w["reference_multiset_lazy"] = pc.LazyMS
		w["observed_multiset"] = got
		switch {
		case !pc.Contr && got != pc.LazyMS:
			c.Violation(fmt.Sprintf("mode=%s contraction=false printed multiset is not the one the SAX semantics produces", r.cfg.Mode), w)
			continue
		case decided && adm:
			exact++
			seqDecided++
		case decided && got != pc.LazyMS:
			c.Violation(fmt.Sprintf("mode=%s contraction=%v printed multiset / sequence is not one the SAX semantics produces under any copy timing", r.cfg.Mode, pc.Contr), w)
			continue
		case decided:
			c.Violation(fmt.Sprintf("mode=%s contraction=%v printed order violates causality / program order of the SAX semantics", r.cfg.Mode, pc.Contr), w)
			continue
		default:
			// search bound: the multiset is judged by the interval oracle (lazy counts are minimal,
			// label support is fixed), the order stays undecided
			seqBounded++
			if got != pc.LazyMS && !intervalOK(pc.LazyMS, got) {
				c.Violation(fmt.Sprintf("mode=%s contraction=%v printed multiset is below the minimal counts or has a different label support", r.cfg.Mode, pc.Contr), w)
				continue
			}
			interval++
			c.Inconc("order-search-bound")
		}
		procs := map[int]bool{}
		for _, p := range run.PrintBy {
			procs[p] = true
		}
		if len(run.Stdout) >= 2 && len(procs) >= 2 {
			c.Nontrivial(pc.ID)
		}
		if len(c.Samples) < 3 && len(run.Stdout) >= 5 && len(procs) >= 3 {
			c.Sample(map[string]interface{}{"program": pc.Text, "config": r.cfg.String(), "observed_sequence": run.Stdout, "reference_multiset": pc.LazyMS})
		}
	}
	c.Extra["programs"] = len(cases)
	c.Extra["runs_decided_exactly_by_guided_replay"] = exact
	c.Extra["runs_where_the_search_bound_was_hit(multiset_by_interval,order_undecided)"] = interval
	c.Extra["runs_decided_by_the_lazy_replay_alone"] = lazyDecided
	c.Extra["order_decided"] = seqDecided
	c.Extra["order_search_bound_hit"] = seqBounded
	c.Extra["generator_features"] = featKeys(cases)
	return c.Finish()
}

// intervalOK: same label support and no count below the lazy (minimal) count.
func intervalOK(lazy, got string) bool {
	a, b := parseMS(lazy), parseMS(got)
	if len(a) != len(b) {
		return false
	}
	for k, n := range a {
		if b[k] < n {
			return false
		}
	}
	return true
}

func parseMS(ms string) map[string]int {
	cnt := map[string]int{}
	if ms == "" {
		return cnt
	}
	for _, part := range strings.Split(ms, ",") {
		i := strings.LastIndex(part, "*")
		n, _ := strconv.Atoi(part[i+1:])
		cnt[part[:i]] = n
	}
	return cnt
}

// longProgram: 2^k by repeated doubling, one print per unit: continuously busy for well over
// the 50 ms heartbeat interval (k >= 9), contraction-free, deterministic.
func longProgram(k int) string {
	var b strings.Builder
	b.WriteString(`type nat = +{zero : 1, succ : nat}
let double(x : nat) : nat =
    case x (
          zero<x'> => self.zero<x'>
        | succ<x'> => h <- new double(x');
                      d : nat <- new self.succ<h>;
                      self.succ<d>
    )
let consume(x : nat) : 1 =
    case x (
          zero<u> => print zero; wait u; close self
        | succ<v> => print succ; consume(v)
    )
prc[d0] : nat =
    t : 1 <- new close self;
    z : nat <- new self.zero<t>;
    self.succ<z>
prc[main] : 1 =
`)
	prev := "d0"
	for i := 1; i <= k; i++ {
		fmt.Fprintf(&b, "    d%d <- new double(%s);\n", i, prev)
		prev = fmt.Sprintf("d%d", i)
	}
	fmt.Fprintf(&b, "    u <- new consume(%s);\n    wait u;\n    print done;\n    close self\n", prev)
	return b.String()
}

// idleProgram: n top-level processes nobody talks to (in the synchronous modes each stays
// parked on its first send for the whole run) next to a small chain of cuts that prints.
func idleProgram(n int) string {
	var b strings.Builder
	for i := 0; i < n; i++ {
		fmt.Fprintf(&b, "prc[idle%d] : lin 1 = close self\n", i)
	}
	b.WriteString(`let unitp() : lin 1 = print made; close self
prc[main] : lin 1 =
    a <- new unitp();
    wait a;
    b <- new unitp();
    wait b;
    c <- new unitp();
    wait c;
    print done;
    close self
`)
	return b.String()
}

// heartbeatEarly: in a run through the real entry point the inactivity timer fired although
// the heartbeat receiver ITSELF had received a heartbeat less than the inactivity interval
// before (both instants are read inside the receiver's goroutine by the vhBeat hook, so a
// starved receiver or starved processes cannot produce this: a correct receiver re-arms its
// timer after every heartbeat, and a timer never fires early). A 10 % margin is left.
func heartbeatEarly(run *sup.RunResult) bool {
	return run.TimerExpired && run.ExpirySilenceUs >= 0 && run.ExpirySilenceUs < run.TimeoutUs*9/10
}
