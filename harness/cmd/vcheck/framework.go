package main

import (
	"crypto/sha1"
	"encoding/json"
	"fmt"
	"os"
	"regexp"
	"sort"
	"strconv"
	"strings"
	"time"
)

// Check is the per-run state of one property check.
type Check struct {
	Prop  string
	Tier  string
	Seed  int64
	start time.Time

	Evaluations  int
	nontrivial   map[string]bool
	Rule         string
	Samples      []interface{}
	Extra        map[string]interface{}
	Assumptions  []string
	Inconclusive int
	inconcWhy    map[string]int

	violations []violation
	known      []knownFinding
	knownHit   map[string]int
	seenSig    map[string]bool
	sigCount   map[string]int
}

type violation struct {
	Sig    string
	Replay string
}

type knownFinding struct {
	Property string `json:"property"`
	ID       string `json:"id"`
	Match    string `json:"match"` // regular expression over the violation signature
	What     string `json:"what"`
	Witness  string `json:"witness,omitempty"`
	re       *regexp.Regexp
}

type knownFile struct {
	Findings []knownFinding `json:"findings"`
	Fixed    []string       `json:"fixed"`
}

func NewCheck(prop string) *Check {
	tier := "quick"
	if len(os.Args) > 2 {
		tier = os.Args[2]
	}
	if t := os.Getenv("VERIF_TIER"); t != "" && len(os.Args) <= 2 {
		tier = t
	}
	if tier != "quick" && tier != "thorough" {
		fmt.Fprintln(os.Stderr, "tier must be quick or thorough")
		os.Exit(2)
	}
	seed := int64(1)
	if s := os.Getenv("VERIF_SEED"); s != "" {
		if v, err := strconv.ParseInt(s, 10, 64); err == nil {
			seed = v
		}
	}
	c := &Check{Prop: prop, Tier: tier, Seed: seed, start: time.Now(), nontrivial: map[string]bool{}, Extra: map[string]interface{}{}, knownHit: map[string]int{}, seenSig: map[string]bool{}, sigCount: map[string]int{}, inconcWhy: map[string]int{}}
	if b, err := os.ReadFile("/verif/KNOWN_FINDINGS.json"); err == nil {
		var kf knownFile
		if err := json.Unmarshal(b, &kf); err != nil {
			fmt.Fprintln(os.Stderr, "KNOWN_FINDINGS.json unreadable:", err)
			os.Exit(2)
		}
		for _, f := range kf.Findings {
			if f.Property == prop {
				f.re = regexp.MustCompile(f.Match)
				c.known = append(c.known, f)
			}
		}
	}
	return c
}

func (c *Check) thorough() bool { return c.Tier == "thorough" }

// pick returns q for the quick tier and t for the thorough one.
func (c *Check) pick(q, t int) int {
	if c.thorough() {
		return t
	}
	return q
}

// Nontrivial records a distinct non-trivial case (by key).
func (c *Check) Nontrivial(key string) { c.nontrivial[key] = true }

func (c *Check) Sample(v interface{}) {
	if len(c.Samples) < 6 {
		c.Samples = append(c.Samples, v)
	}
}

func (c *Check) Inconc(why string) {
	c.Inconclusive++
	c.inconcWhy[why]++
}

// Violation reports a violation with a seed-independent signature and a witness. Known
// findings are matched on the signature; anything else is a VIOLATION.
func (c *Check) Violation(sig string, witness map[string]interface{}) {
	for _, k := range c.known {
		if k.re.MatchString(sig) {
			c.knownHit[k.ID]++
			if c.knownHit[k.ID] == 1 {
				fmt.Printf("KNOWN-FINDING: property=%s %s: %s\n", c.Prop, k.ID, k.What)
			}
			return
		}
	}
	c.sigCount[sig]++
	if c.seenSig[sig] && len(c.violations) >= 3 {
		c.violations = append(c.violations, violation{Sig: sig})
		return
	}
	c.seenSig[sig] = true
	witness["property"] = c.Prop
	witness["signature"] = sig
	witness["seed"] = c.Seed
	witness["tier"] = c.Tier
	b, _ := json.MarshalIndent(witness, "", " ")
	h := sha1.Sum(b)
	os.MkdirAll("/verif/replay", 0o755)
	path := fmt.Sprintf("/verif/replay/%s-%x.json", c.Prop, h[:6])
	os.WriteFile(path, b, 0o644)
	c.violations = append(c.violations, violation{Sig: sig, Replay: path})
	if len(c.violations) <= 10 {
		fmt.Printf("VIOLATION property=%s replay=%s\n", c.Prop, path)
		fmt.Printf("  signature: %s\n", sig)
	}
}

// Finish writes the evidence file and returns the exit status.
func (c *Check) Finish() int {
	cov := map[string]interface{}{
		"evaluations":         c.Evaluations,
		"distinct_nontrivial": len(c.nontrivial),
		"rule":                c.Rule,
		"samples":             c.Samples,
		"inconclusive":        c.Inconclusive,
		"inconclusive_by_why": c.inconcWhy,
		"known_findings_hit":  c.knownHit,
	}
	for k, v := range c.Extra {
		cov[k] = v
	}
	if len(c.Samples) == 0 {
		cov["samples"] = []interface{}{"(none)"}
	}
	ev := map[string]interface{}{
		"property_id": c.Prop,
		"tier":        c.Tier,
		"seed":        c.Seed,
		"level":       "exploration",
		"coverage":    cov,
		"assumptions": c.Assumptions,
		"wall_s":      time.Since(c.start).Seconds(),
		"violations":  len(c.violations),
	}
	b, _ := json.MarshalIndent(ev, "", " ")
	os.MkdirAll("/verif/evidence", 0o755)
	if err := os.WriteFile("/verif/evidence/"+c.Prop+".json", b, 0o644); err != nil {
		fmt.Fprintln(os.Stderr, "cannot write evidence:", err)
		return 2
	}
	var ks []string
	for k, n := range c.knownHit {
		ks = append(ks, fmt.Sprintf("%s x%d", k, n))
	}
	sort.Strings(ks)
	fmt.Printf("%s %s seed=%d: %d evaluations, %d distinct non-trivial, %d inconclusive, %d violations, known findings [%s], %.1fs\n",
		c.Prop, c.Tier, c.Seed, c.Evaluations, len(c.nontrivial), c.Inconclusive, len(c.violations), strings.Join(ks, ", "), time.Since(c.start).Seconds())
	if len(c.violations) > 0 {
		var sigs []string
		for s, n := range c.sigCount {
			sigs = append(sigs, fmt.Sprintf("  %4d x %s", n, s))
		}
		sort.Strings(sigs)
		fmt.Println("violation signatures:")
		fmt.Println(strings.Join(sigs, "\n"))
		return 1
	}
	if c.Evaluations == 0 || len(c.nontrivial) < 2 || c.Inconclusive*2 > c.Evaluations {
		fmt.Printf("INCONCLUSIVE property=%s: the monitors observed too little (%d evaluations, %d non-trivial, %d inconclusive)\n", c.Prop, c.Evaluations, len(c.nontrivial), c.Inconclusive)
		return 3
	}
	return 0
}

func clip(s string, n int) string {
	if len(s) > n {
		return s[:n] + "…"
	}
	return s
}

// splitmix for deriving sub-seeds
func subSeed(seed int64, k int) int64 {
	z := uint64(seed)*0x9E3779B97F4A7C15 + uint64(k+1)*0xBF58476D1CE4E5B9
	z = (z ^ (z >> 30)) * 0xBF58476D1CE4E5B9
	z = (z ^ (z >> 27)) * 0x94D049BB133111EB
	z ^= z >> 31
	return int64(z >> 1)
}

// PinnedWitness runs the pinned input of a known finding: if it still fails it is reported
// through the normal path (and matched by its signature); if not, a note is printed.
func (c *Check) PinnedWitness(id string, stillFails bool, sig string, w map[string]interface{}) {
	if stillFails {
		w["pinned_witness_of"] = id
		c.Violation(sig, w)
		return
	}
	fmt.Printf("NOTE property=%s: the pinned witness of known finding %s no longer reproduces (the entry in KNOWN_FINDINGS.json may be obsolete)\n", c.Prop, id)
}
