package main

import (
	"sort"
	"encoding/json"
	"fmt"
	"math/rand"
	"os"
	"strings"
	"regexp"
	"strconv"
	"verif/ast"
	"verif/gen"
	"verif/mut"
	"verif/ref/sem"
	"verif/ref/typing"
	"verif/sup"
)

// devAgree: do generated programs typecheck in Grits? (development aid)
func devAgree(pool *sup.Pool, args []string) int {
	n, seed := 300, int64(1)
	if len(args) > 0 {
		n, _ = strconv.Atoi(args[0])
	}
	if len(args) > 1 {
		s, _ := strconv.Atoi(args[1])
		seed = int64(s)
	}
	var jobs []sup.Job
	feat := map[string]int{}
	for i := 0; i < n; i++ {
		p, _, _ := gen.Generate(seed+int64(i), nil)
		if v := typing.Check(p); v.Kind != typing.Accept {
			fmt.Printf("seed %d R1 %s\n", seed+int64(i), v)
		}
		for k, v := range p.Feat {
			feat[k] += v
		}
		jobs = append(jobs, sup.Job{Kind: "typecheck", Text: p.Text(), Tag: fmt.Sprint(seed + int64(i))})
	}
	outs := pool.Run(jobs, nil)
	bad := 0
	for _, o := range outs {
		switch {
		case o.Died():
			bad++
			fmt.Printf("seed %s DIED %s\n", o.Job.Tag, sup.DeathSig(o.Deaths[0]))
		case o.Res == nil:
			bad++
			fmt.Printf("seed %s HUNG\n", o.Job.Tag)
		case !o.Res.ParseOK:
			bad++
			fmt.Printf("seed %s PARSE %s\n", o.Job.Tag, o.Res.ParseErr)
		case !o.Res.TcOK:
			bad++
			fmt.Printf("seed %s TC %s\n", o.Job.Tag, o.Res.TcErr)
		}
		if bad > 15 {
			break
		}
	}
	fmt.Printf("%d programs, %d not accepted; features %v\n", n, bad, feat)
	if bad > 0 {
		return 1
	}
	return 0
}

func init() {
	devCmds["agree"] = devAgree
}

var devCmds = map[string]func(*sup.Pool, []string) int{}

func runDev(name string, args []string) {
	if f, ok := devCmds[name]; ok {
		os.Exit(f(newPool(), args))
	}
}

// devSem: compare the lazy reference run with real runs (development aid).
func devSem(pool *sup.Pool, args []string) int {
	n, seed := 200, int64(1)
	if len(args) > 0 {
		n, _ = strconv.Atoi(args[0])
	}
	if len(args) > 1 {
		s, _ := strconv.Atoi(args[1])
		seed = int64(s)
	}
	var jobs []sup.Job
	expect := map[string]string{}
	contr := map[string]bool{}
	for i := 0; i < n; i++ {
		p, _, _ := gen.Generate(seed+int64(i), &gen.Opt{MaxSplit: 3, Pol: 0, Alias: 30, ExplicitSelf: 10, ExplicitProv: 10, Exec: 15, Print: 12, TopMax: 3, Fuel: 3, MultiProv: 25, Drop: 12, Split: 14, Mixed: i%3 == 0, MainMode: []ast.Mode{ast.Lin, ast.Rep, ast.Aff, ast.Mul}[i%4]})
		m := sem.New(p)
		tag := fmt.Sprint(seed + int64(i))
		if !m.Lazy(200000) {
			fmt.Printf("seed %s: reference diverges\n", tag)
			continue
		}
		expect[tag] = sem.MS(m.Prints)
		contr[tag] = p.UsesContraction()
		if live := m.Live(); len(live) != 1 {
			fmt.Printf("seed %s: reference final config %v\n", tag, live)
		}
		for _, mode := range []string{"async", "sync", "np"} {
			jobs = append(jobs, sup.Job{Kind: "run", Text: p.Text(), Mode: mode, Tag: tag, EventBudget: 3000000, Profile: "gosched", Seed: uint64(i)})
		}
	}
	outs := pool.Run(jobs, nil)
	bad, npdiff := 0, 0
	for _, o := range outs {
		tag := o.Job.Tag
		switch {
		case o.Died():
			fmt.Printf("seed %s %s DIED %s\n", tag, o.Job.Mode, sup.DeathSig(o.Deaths[0]))
		case o.Res == nil || o.Res.Run == nil:
			fmt.Printf("seed %s %s no run (%v)\n", tag, o.Job.Mode, o.Res)
		default:
			got := sem.MS(o.Res.Run.Stdout)
			if got != expect[tag] {
				if o.Job.Mode == "np" && contr[tag] {
					npdiff++
					continue
				}
				bad++
				fmt.Printf("seed %s %s MISMATCH\n   got  %s\n   want %s\n   live %v q=%v\n", tag, o.Job.Mode, got, expect[tag], o.Res.Run.Live, o.Res.Run.Quiescent)
			}
			want := 0
			if o.Job.Mode != "async" {
				want = 1
			}
			if len(o.Res.Run.Live) != want && !(o.Job.Mode == "np") {
				fmt.Printf("seed %s %s live=%v\n", tag, o.Job.Mode, o.Res.Run.Live)
			}
		}
	}
	fmt.Printf("%d runs, %d mismatches, %d np-with-contraction differences (admitted)\n", len(outs), bad, npdiff)
	return 0
}

func init() { devCmds["sem"] = devSem }

// devMS: print the admitted multisets of the program in a witness file (re-generated from its id).
func devMS(pool *sup.Pool, args []string) int {
	raw, _ := os.ReadFile(args[0])
	var w struct {
		Program string `json:"program"`
		ID      string `json:"program_id"`
	}
	json.Unmarshal(raw, &w)
	var s int64
	fmt.Sscanf(w.ID, "g%d", &s)
	var p *ast.Program
	for i := -1; i < 12 && p == nil; i++ {
		var o *gen.Opt
		if i >= 0 {
			oo := gen.Opt{MaxSplit: 2, Pol: 2, Alias: 30, ExplicitSelf: 10, ExplicitProv: 10, Exec: 10, Print: 35, TopMax: 2, Fuel: 2, MultiProv: 20, Drop: 10, Split: 12, Mixed: i%2 == 0, MainMode: []ast.Mode{ast.Lin, ast.Rep, ast.Mul, ast.Aff}[i%4]}
			o = &oo
		}
		q, _, _ := gen.Generate(s, o)
		if q.Text() == w.Program {
			p = q
		}
	}
	if p == nil {
		fmt.Println("cannot regenerate")
		return 1
	}
	m := sem.New(p)
	sr := &sem.Search{MaxState: 50000, MaxSteps: 400000}
	set := m.Multisets(sr)
	fmt.Println("states", sr.States, "bounded", sr.Bounded)
	for k := range set {
		fmt.Println("  ", k)
	}
	if len(args) > 1 {
		// list the admitted orders of the given labels (space separated), e.g. "p1 p1 p2 p2 p2 p6"
		labels := strings.Fields(args[1])
		sort.Strings(labels)
		seen := map[string]bool{}
		var perm func(cur []string, rest []string)
		perm = func(cur []string, rest []string) {
			if len(rest) == 0 {
				k := strings.Join(cur, " ")
				if !seen[k] {
					seen[k] = true
					ok, dec := sem.New(p).Admits(cur, &sem.Search{MaxState: 20000, MaxSteps: 400000})
					if ok || !dec {
						fmt.Println("   admitted:", k, "decided", dec)
					}
				}
				return
			}
			for i := range rest {
				if i > 0 && rest[i] == rest[i-1] {
					continue
				}
				nr := append(append([]string{}, rest[:i]...), rest[i+1:]...)
				perm(append(append([]string{}, cur...), rest[i]), nr)
			}
		}
		perm(nil, labels)
	}
	return 0
}

func init() { devCmds["ms"] = devMS }

func devShape(pool *sup.Pool, args []string) int {
	n := 0
	re := regexp.MustCompile(`prc\[\w+, \w+\] : [^\n]*=\n    (print \w+;\n    )*\w+\(\w`)
	for i := 0; i < 300; i++ {
		o := gen.Opt{MaxSplit: 4, Pol: 2, Alias: 30, ExplicitSelf: 15, ExplicitProv: 15, Exec: 10, Print: 8, TopMax: 3, Fuel: 3, MultiProv: 60, Drop: 12, Split: 35, Tail: 30, Mixed: i%2 == 0, MainMode: []ast.Mode{ast.Rep, ast.Lin, ast.Mul, ast.Lin}[i%4]}
		p, _, _ := gen.Generate(int64(i)*31+7, &o)
		if re.MatchString(p.Text()) {
			n++
		}
	}
	fmt.Println("programs with a multi-name process whose body is a call with arguments:", n, "of 300")
	return 0
}

func init() { devCmds["shape"] = devShape }

func devRunFile(pool *sup.Pool, args []string) int {
	b, _ := os.ReadFile(args[0])
	var jobs []sup.Job
	for _, m := range []string{"async", "sync", "np"} {
		jobs = append(jobs, sup.Job{Kind: "run", Text: string(b), Mode: m, EventBudget: 2000000})
	}
	for _, o := range pool.Run(jobs, nil) {
		if o.Res == nil || o.Res.Run == nil {
			fmt.Println(o.Job.Mode, "no run", o.Died(), o.Res)
			continue
		}
		r := o.Res.Run
		fmt.Printf("%s prints=%v live=%d dups=%d sameIdent=%d\n", o.Job.Mode, r.Stdout, len(r.Live), r.Dups, r.DupSameIdent)
	}
	return 0
}

func init() { devCmds["runfile"] = devRunFile }

func devIdent(pool *sup.Pool, args []string) int {
	var jobs []sup.Job
	r := rand.New(rand.NewSource(5))
	for i := 0; i < 300; i++ {
		o := gen.Opt{MaxSplit: 4, Pol: 0, Alias: 35, ExplicitSelf: 15, ExplicitProv: 20, Exec: 10, Print: 14, TopMax: 3, Fuel: 3, MultiProv: 35, Drop: 15, Split: 28, Mixed: i%4 == 0, MainMode: []ast.Mode{ast.Rep, ast.Mul, ast.Rep, ast.Lin}[i%4]}
		p, _, _ := gen.Generate(int64(i)*17+3, &o)
		q, _ := mut.Rename(p, r, true)
		if typing.Check(q).Kind != typing.Accept {
			continue
		}
		jobs = append(jobs, sup.Job{Kind: "run", Text: q.Text(), Mode: "async", EventBudget: 2000000})
	}
	d, s := 0, 0
	shown := false
	hist := map[string]int{}
	defer func() { fmt.Println(hist) }()
	for _, o := range pool.Run(jobs, nil) {
		if o.Res != nil && o.Res.Run != nil {
			d += o.Res.Run.Dups
			s += o.Res.Run.DupSameIdent
			for k, v := range o.Res.Run.Kinds {
				if strings.HasPrefix(k, "dup-with") {
					hist[k] += v
				}
			}
			if o.Res.Run.Kinds["dup-with-2-free-names"] > 0 && len(args) > 0 && !shown {
				shown = true
				fmt.Println(o.Job.Text)
			}
		}
	}
	fmt.Println("programs", len(jobs), "dups", d, "same-ident dups", s)
	return 0
}

func init() { devCmds["ident"] = devIdent }

func devRenamed(pool *sup.Pool, args []string) int {
	r := rand.New(rand.NewSource(5))
	o := gen.Opt{MaxSplit: 4, Pol: 0, Alias: 35, ExplicitSelf: 15, ExplicitProv: 20, Exec: 10, Print: 14, TopMax: 3, Fuel: 3, MultiProv: 35, Drop: 15, Split: 28, MainMode: ast.Rep}
	p, _, _ := gen.Generate(37, &o)
	q, _ := mut.Rename(p, r, true)
	fmt.Println(q.Text())
	return 0
}

func init() { devCmds["renamed"] = devRenamed }

// devSeq: re-run the sequence of a C19 witness file n times.
func devSeq(pool *sup.Pool, args []string) int {
	raw, _ := os.ReadFile(args[0])
	var w struct {
		Programs []string `json:"programs"`
		Sequence []string `json:"sequence"`
	}
	json.Unmarshal(raw, &w)
	var jobs []sup.Job
	for rep := 0; rep < 40; rep++ {
		j := sup.Job{Kind: "seq"}
		for i, p := range w.Programs {
			mode := "async"
			if strings.Contains(w.Sequence[i], "(sync)") {
				mode = "sync"
			} else if strings.Contains(w.Sequence[i], "(np)") {
				mode = "np"
			}
			j.Seq = append(j.Seq, sup.Job{Kind: "run", Text: p, Mode: mode, Seed: uint64(rep), Profile: "gosched", Procs: 4, EventBudget: 3000000})
		}
		jobs = append(jobs, j)
	}
	pool.Recycle = 1
	died := 0
	for _, o := range pool.Run(jobs, nil) {
		if o.Died() {
			died++
			fmt.Println("died:", normDeath(o.Deaths[0]))
		}
	}
	fmt.Println("sequences died:", died, "of", len(jobs))
	return 0
}

func init() { devCmds["seq"] = devSeq }

// devAdmits: re-run the guided replay of a C04 witness.
func devAdmits(pool *sup.Pool, args []string) int {
	raw, _ := os.ReadFile(args[0])
	var w struct {
		Program string   `json:"program"`
		ID      string   `json:"program_id"`
		Stdout  []string `json:"stdout"`
	}
	json.Unmarshal(raw, &w)
	sem.DebugNoMemo = os.Getenv("VERIF_NOMEMO") != ""
	var s int64
	fmt.Sscanf(w.ID, "g%d", &s)
	var p *ast.Program
	for i := -1; i < 3000 && p == nil; i++ {
		var o *gen.Opt
		if i >= 0 {
			if i%3 != 0 {
				continue
			}
			oo := gen.Opt{MaxSplit: 2, Pol: 2, Alias: 30, ExplicitSelf: 10, ExplicitProv: 10, Exec: 10, Print: 35, TopMax: 2, Fuel: 2, MultiProv: 20, Drop: 10, Split: 12, Mixed: i%2 == 0, MainMode: []ast.Mode{ast.Lin, ast.Rep, ast.Mul, ast.Aff}[i%4]}
			o = &oo
		}
		q, _, _ := gen.Generate(s, o)
		if h := subSeed(s, 77); h%3 == 0 {
			q2, _ := mut.Rename(q, rand.New(rand.NewSource(h)), true)
			if typing.Check(q2).Kind == typing.Accept {
				q = q2
			}
		}
		if q.Text() == w.Program {
			p = q
		}
	}
	if p == nil {
		fmt.Println("cannot regenerate")
		return 1
	}
	sr := &sem.Search{MaxState: 200000, MaxSteps: 400000}
	adm, dec := sem.New(p).Admits(w.Stdout, sr)
	fmt.Println("admits", adm, "decided", dec, "states", sr.States)
	for k := 1; k <= len(w.Stdout); k++ {
		sr := &sem.Search{MaxState: 200000, MaxSteps: 400000}
		a, d := sem.New(p).AdmitsPrefix(w.Stdout[:k], sr)
		fmt.Println("prefix", k, w.Stdout[:k], a, d)
		if !a {
			fmt.Println(sem.New(p).DeepestFailure(w.Stdout[:k], &sem.Search{MaxState: 20000, MaxSteps: 400000}))
			break
		}
	}
	return 0
}

func init() { devCmds["admits"] = devAdmits }
