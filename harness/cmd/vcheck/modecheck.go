package main

import (
	"reflect"
	"fmt"

	vast "verif/ast"
	"verif/sup"
)

// ---------------------------------------------------------------- C17
//
// R4: the adjoint mode preorder as the statement gives it. Everything is evaluated on the
// real Modality values inside a worker; the space is finite and enumerated completely.

func checkC17() int {
	c := NewCheck("C17")
	pool := newPool()
	c.Rule = "exhaustive: all 4 modes, 16 ordered pairs and 64 triples of the real Modality values (CanBeDownshiftedTo, CanBeUpshiftedTo, AllowsWeakening, AllowsContraction, Equals) against R4 (rep on top, lin at the bottom, mul and aff incomparable; sigma(rep)={W,C}, sigma(mul)={C}, sigma(aff)={W}, sigma(lin)={}): reflexivity, transitivity, antisymmetry, top/bottom, converse law, monotonicity of the structural rules; the 12 documented spellings through StringToMode, asked in 12 seeded orders per run (mixed with capitalised and unknown spellings and with parses in between) in several runs; every run asks the 48 relation questions of each of its 13 tables in a seeded order, 16 (quick) / 64 (thorough) runs each in a fresh worker process and again in workers with a history, all tables must coincide: every answer must be the documented mode; every tuple is non-trivial"
	c.Assumptions = []string{"nothing beyond the statement is asserted: case variants and unknown spellings are only recorded"}
	// the job is run several times (each in whatever worker is free: fresh ones and ones that
	// have served other jobs); every run asks the spellings in 12 seeded orders, mixed with
	// capitalised and unknown spellings and with programs parsed in between
	var mjobs []sup.Job
	for k := 0; k < c.pick(16, 64); k++ {
		mjobs = append(mjobs, sup.Job{Kind: "modes", Seed: uint64(subSeed(c.Seed, 1700+k))})
	}
	// each job in a worker process of its own (a fresh process asks its first table in its own
	// seeded order), then all of them again in one pool (workers with a history)
	var outs []*sup.Outcome
	for _, j := range mjobs {
		outs = append(outs, newPool().Run([]sup.Job{j}, nil)...)
	}
	outs = append(outs, pool.Run(mjobs, nil)...)
	for _, o := range outs[1:] {
		c.Evaluations++
		if o.Died() || o.Res == nil || o.Res.Modes == nil {
			c.Violation("evaluating the mode tables kills the host", map[string]interface{}{"stderr": clip(o.Deaths0(), 3000)})
			continue
		}
		if !reflect.DeepEqual(o.Res.Modes.Down, outs[0].Res.Modes.Down) || !reflect.DeepEqual(o.Res.Modes.UpT, outs[0].Res.Modes.UpT) || !o.Res.Modes.TablesStable {
			c.Violation("the mode tables differ between two evaluations", map[string]interface{}{"down": o.Res.Modes.Down, "up": o.Res.Modes.UpT})
		}
		c.Nontrivial(fmt.Sprint("run:", o.Job.Seed))
	}
	o := outs[0]
	if o.Died() || o.Res == nil || o.Res.Modes == nil {
		c.Violation("evaluating the mode tables kills the host", map[string]interface{}{"stderr": clip(o.Deaths0(), 3000)})
		c.Evaluations = 1
		return c.Finish()
	}
	t := o.Res.Modes
	idx := map[string]int{}
	for i, n := range t.Names {
		idx[n] = i
	}
	ms := vast.AllModes
	at := func(m vast.Mode) int { return idx[m.String()] }
	if len(t.Names) != 4 {
		c.Violation("the four modes do not print as rep/mul/aff/lin", map[string]interface{}{"names": t.Names})
	}
	bad := func(what string, tuple ...vast.Mode) {
		c.Violation(what, map[string]interface{}{"tuple": fmt.Sprint(tuple), "table_down": t.Down, "table_up": t.UpT, "weaken": t.Weaken, "contract": t.Contract})
	}
	down := func(a, b vast.Mode) bool { return t.Down[at(a)][at(b)] }
	up := func(a, b vast.Mode) bool { return t.UpT[at(a)][at(b)] }
	for _, a := range ms {
		c.Evaluations++
		c.Nontrivial("1:" + a.String())
		if !down(a, a) {
			bad("down-shift relation is not reflexive at "+a.String(), a)
		}
		if !down(vast.Rep, a) {
			bad("replicable is not on top: rep cannot be down-shifted to "+a.String(), a)
		}
		if !down(a, vast.Lin) {
			bad("linear is not at the bottom: "+a.String()+" cannot be down-shifted to lin", a)
		}
		if t.Weaken[at(a)] != a.Weaken() {
			bad("weakening permitted/forbidden wrongly for "+a.String(), a)
		}
		if t.Contract[at(a)] != a.Contract() {
			bad("contraction permitted/forbidden wrongly for "+a.String(), a)
		}
		for _, b := range ms {
			c.Evaluations++
			c.Nontrivial("2:" + a.String() + b.String())
			if down(a, b) != vast.Geq(a, b) {
				bad(fmt.Sprintf("CanBeDownshiftedTo(%s, %s) = %v, the preorder says %v", a, b, down(a, b), vast.Geq(a, b)), a, b)
			}
			if up(a, b) != down(b, a) {
				bad(fmt.Sprintf("up-shift is not the converse of down-shift at (%s, %s)", a, b), a, b)
			}
			if a != b && down(a, b) && down(b, a) {
				bad(fmt.Sprintf("down-shift relation is not antisymmetric at (%s, %s)", a, b), a, b)
			}
			if t.Equals[at(a)][at(b)] != (a == b) {
				bad(fmt.Sprintf("Equals(%s, %s) is wrong", a, b), a, b)
			}
			if down(a, b) {
				// a >= b: sigma(b) is a subset of sigma(a)
				if (t.Weaken[at(b)] && !t.Weaken[at(a)]) || (t.Contract[at(b)] && !t.Contract[at(a)]) {
					bad(fmt.Sprintf("structural rules are not monotone: %s >= %s but %s permits a rule %s does not", a, b, b, a), a, b)
				}
			}
			for _, d := range ms {
				c.Evaluations++
				c.Nontrivial("3:" + a.String() + b.String() + d.String())
				if down(a, b) && down(b, d) && !down(a, d) {
					bad(fmt.Sprintf("down-shift relation is not transitive at (%s, %s, %s)", a, b, d), a, b, d)
				}
			}
		}
	}
	if down(vast.Mul, vast.Aff) || down(vast.Aff, vast.Mul) {
		bad("multicast and affine are comparable", vast.Mul, vast.Aff)
	}
	spell := map[string]vast.Mode{"r": vast.Rep, "rep": vast.Rep, "replicable": vast.Rep, "m": vast.Mul, "mul": vast.Mul, "multicast": vast.Mul, "a": vast.Aff, "aff": vast.Aff, "affine": vast.Aff, "l": vast.Lin, "lin": vast.Lin, "linear": vast.Lin}
	for s, m := range spell {
		c.Evaluations++
		c.Nontrivial("s:" + s)
		if t.Spell[s] != m.String() {
			c.Violation(fmt.Sprintf("spelling %q does not denote %s", s, m), map[string]interface{}{"got": t.Spell[s]})
			continue
		}
		for _, oo := range outs {
			if oo.Res == nil || oo.Res.Modes == nil {
				continue
			}
			if all := oo.Res.Modes.SpellAll[s]; len(all) != 1 || all[0] != m.String() {
				c.Violation(fmt.Sprintf("spelling %q does not always denote %s: the answer depends on what was asked before", s, m), map[string]interface{}{"answers": all, "run_seed": oo.Job.Seed})
				break
			}
		}
	}
	if !t.TablesStable {
		c.Violation("the mode tables differ between two evaluations", map[string]interface{}{"down": t.Down})
	}
	c.Extra["exhaustive"] = true
	c.Extra["tables"] = map[string]interface{}{"names": t.Names, "down": t.Down, "up": t.UpT, "weaken": t.Weaken, "contract": t.Contract}
	c.Extra["other_spellings_recorded"] = t.Spell
	c.Sample(map[string]interface{}{"tuple": "(mul, aff)", "down": down(vast.Mul, vast.Aff), "up": up(vast.Mul, vast.Aff)})
	c.Sample(map[string]interface{}{"tuple": "(rep, mul, lin)", "transitive": down(vast.Rep, vast.Mul) && down(vast.Mul, vast.Lin) && down(vast.Rep, vast.Lin)})
	return c.Finish()
}
