package main

import (
	"bytes"
	"context"
	"fmt"
	"math/rand"
	"os"
	"os/exec"
	"regexp"
	"strings"
	"sync"
	"time"

	"verif/gen"
	"verif/mut"
	"verif/ref/typing"
	"verif/sup"
)

// ---------------------------------------------------------------- C18

type cliCase struct {
	id      string
	text    string
	source  string
	parseOK bool
	tcOK    bool
	known   bool // verdicts known and consistent
}

type cliInv struct {
	cc     *cliCase
	args   []string
	noTC   bool
	noExec bool
	exit   int
	stdout string
	stderr string
	timed  bool
}

var reLogLine = regexp.MustCompile(`(?m)^\d{4}/\d\d/\d\d \d\d:\d\d:\d\d `)

func checkC18() int {
	c := NewCheck("C18")
	pool := newPool()
	r := rand.New(rand.NewSource(subSeed(c.Seed, 1818)))
	bin := binDir() + "/grits"
	if _, err := os.Stat(bin); err != nil {
		fmt.Fprintln(os.Stderr, "grits binary missing:", err)
		return 2
	}
	c.Rule = "the built grits binary (go build of /repo, no tag) is run on files: corpus, G1 programs, ill-typed single-edit mutants, unparseable edits, texts that end in the middle of a declaration (with and without a final newline), empty / blank / comment-only files, files with a line of more than 64 KiB followed by an error; flags: 0..3 occurrences each of --typecheck[=v] / --notypecheck[=v] and --execute[=v] / --noexecute[=v] in any order (a stage runs iff its positive flag is true and its negative flag false, each at its last value) x {default, --sync, --async} x --verbosity 1..3; expected verdicts come from the worker's parse/typecheck of the same text (and R1 where there is an AST; cases where they disagree are skipped); oracle: exit status 0 iff parse ok and (typecheck skipped or ok); no '> label' line when status != 0 or execution is off; exactly one diagnostic line on failure; never a Go panic trace; non-trivial = distinct (file, flag set) with a known expected status"
	c.Assumptions = []string{"each executing invocation costs the real 50 ms heartbeat; a 30 s timeout is inconclusive"}
	var cases []*cliCase
	add := func(src, text string) { cases = append(cases, &cliCase{id: fmt.Sprintf("f%d", len(cases)), text: text, source: src}) }
	ct := corpusTexts()
	for _, k := range sortedKeys(ct) {
		if strings.HasPrefix(k, "examples/") {
			add("corpus", ct[k])
		}
	}
	forced := map[int]bool{} // cases whose parse verdict is known by construction (must fail)
	gcs := genCases(c, c.pick(40, 600), 18, nil)
	r1 := map[string]typing.VKind{}
	for _, pc := range gcs {
		add("G1", pc.Text)
		r1[pc.Text] = typing.Accept
		for k := 0; k < 2; k++ {
			if m := mut.Mutate(pc.P, r); m != nil {
				t := m.P.Text()
				add("mutant", t)
				r1[t] = typing.Check(m.P).Kind
			}
		}
		if r.Intn(3) == 0 {
			add("edit", gen.EditText(r, pc.Text, 1+r.Intn(2)))
		}
		if r.Intn(2) == 0 {
			// ungrammatical by construction: a character outside the alphabet, at a declaration
			// boundary, at the very end, or anywhere
			t := pc.Text
			ill := illegalRunes[r.Intn(len(illegalRunes))]
			pos := len(t)
			switch r.Intn(3) {
			case 0:
				if i := strings.LastIndex(t, "\nprc["); i >= 0 {
					pos = i + 1
				}
			case 1:
				pos = r.Intn(len(t) + 1)
			}
			forced[len(cases)] = true
			add("illegal-rune", t[:pos]+ill+"\n"+t[pos:])
		}
	}
	// files that end where a parser only notices at the very end of the input, with and without
	// a final newline; empty and comment-only files; files with a line of more than 64 KiB
	// (a comment) followed by a syntax error, a type error, or nothing
	if len(gcs) > 0 {
		base := gcs[0].Text
		for _, tail := range []string{"prc[zz] : 1 =", "prc[zz] : 1 = wait", "type Zz =", "let zf() : 1 =", "prc[zz]", "/* never closed", "prc[zz] : 1 = close self /* tail"} {
			for _, nl := range []string{"", "\n", "\n\n"} {
				add("unfinished-at-eof", base+"\n"+tail+nl)
				add("unfinished-at-eof", tail+nl)
			}
		}
		for _, t := range []string{"", "\n", "\n\n\n", "// only a comment\n", "/* only a comment */\n", "   \n\t\n"} {
			add("blank", t)
		}
		long := "// " + strings.Repeat("x", 70000+r.Intn(30000)) + "\n"
		for k, pc := range gcs {
			if k >= 4 {
				break
			}
			add("long-line", pc.Text+long)
			add("long-line-then-syntax-error", pc.Text+long+"prc[zz] : 1 = = close self\n")
			add("long-line-then-type-error", pc.Text+long+"prc[zz] : lin 1 = wait zz; close self\n")
			add("long-line-first", long+pc.Text)
		}
	}
	// declarations in another order (an exec before the function it runs, processes before
	// the types they mention): the verdict must be the one of the original order
	sameAs := map[int]string{} // case index -> text whose verdicts it must share
	for k, pc := range gcs {
		if k%2 == 0 {
			sameAs[len(cases)] = pc.Text
			add("permuted", mut.Permute(pc.P, r).Text())
		}
	}
	// errors that are neither type errors nor syntax errors of a single token: an exec of a
	// function that does not exist, a process that refers to one of its own provider names.
	// Whatever the flags, such a text cannot be run
	for k, pc := range gcs {
		if k >= 6 {
			break
		}
		forced[len(cases)] = true
		add("exec-of-unknown-function", pc.Text+"exec nosuchfunction()\n")
		forced[len(cases)] = true
		add("own-name-referenced", pc.Text+"prc[zza, zzb] : rep 1 = wait zza; close self\n")
	}
	// expected verdicts
	jobs := make([]sup.Job, len(cases))
	for i, cc := range cases {
		jobs[i] = sup.Job{Kind: "typecheck", Text: cc.text}
	}
	for i, o := range pool.Run(jobs, nil) {
		cc := cases[i]
		if o.Died() || o.Res == nil {
			continue
		}
		cc.parseOK, cc.tcOK = o.Res.ParseOK, o.Res.TcOK
		cc.known = true
		if forced[i] {
			cc.parseOK, cc.tcOK = false, false
		}
		if orig, ok := sameAs[i]; ok {
			// a permutation of the declarations of a generated (accepted) program
			cc.parseOK, cc.tcOK = true, true
			r1[cc.text] = typing.Accept
			_ = orig
		}
		if k, ok := r1[cc.text]; ok && cc.parseOK {
			if k == typing.Unknown || (k == typing.Accept) != cc.tcOK {
				cc.known = false // a C07 matter
			}
		}
	}
	dir := "/verif/logs/cli"
	os.RemoveAll(dir)
	os.MkdirAll(dir, 0o755)
	var invs []*cliInv
	perFile := c.pick(3, 5)
	for _, cc := range cases {
		if !cc.known {
			continue
		}
		path := fmt.Sprintf("%s/%s.grits", dir, cc.id)
		os.WriteFile(path, []byte(cc.text), 0o644)
		for k := 0; k < perFile; k++ {
			inv := &cliInv{cc: cc}
			// 0..3 occurrences of the typecheck flags and of the execute flags, in any order and
			// with explicit values; the documented meaning: a stage runs iff its positive flag is
			// (still) true and its negative flag is (still) false, each flag keeping its last value
			pair := func(pos, neg string) (off bool, toks []string) {
				p, n := true, false
				k := []int{0, 1, 1, 1, 2, 2, 3}[r.Intn(7)]
				for i := 0; i < k; i++ {
					switch r.Intn(6) {
					case 0:
						toks, p = append(toks, "--"+pos), true
					case 1:
						toks, p = append(toks, "--"+pos+"=false"), false
					case 2:
						toks, p = append(toks, "--"+pos+"=true"), true
					case 3, 4:
						toks, n = append(toks, "--"+neg), true
					default:
						toks, n = append(toks, "--"+neg+"=false"), false
					}
				}
				return !(p && !n), toks
			}
			var tt, et []string
			inv.noTC, tt = pair("typecheck", "notypecheck")
			inv.noExec, et = pair("execute", "noexecute")
			// interleave the two groups
			for len(tt)+len(et) > 0 {
				if len(et) == 0 || (len(tt) > 0 && r.Intn(2) == 0) {
					inv.args, tt = append(inv.args, tt[0]), tt[1:]
				} else {
					inv.args, et = append(inv.args, et[0]), et[1:]
				}
			}
			switch r.Intn(4) {
			case 0:
				inv.args = append(inv.args, "--sync")
			case 1:
				inv.args = append(inv.args, "--async")
			}
			switch r.Intn(4) {
			case 0:
				inv.args = append(inv.args, "--verbosity", "2")
			case 1:
				inv.args = append(inv.args, "--verbosity=3")
			case 2:
				inv.args = append(inv.args, "--verbosity", "1")
			}
			inv.args = append(inv.args, path)
			invs = append(invs, inv)
		}
	}
	// run them, 16 at a time
	var wg sync.WaitGroup
	sem := make(chan struct{}, 16)
	for _, inv := range invs {
		wg.Add(1)
		sem <- struct{}{}
		go func(inv *cliInv) {
			defer wg.Done()
			defer func() { <-sem }()
			ctx, cancel := context.WithTimeout(context.Background(), 30*time.Second)
			defer cancel()
			cmd := exec.CommandContext(ctx, bin, inv.args...)
			var so, se bytes.Buffer
			cmd.Stdout, cmd.Stderr = &so, &se
			err := cmd.Run()
			inv.stdout, inv.stderr = so.String(), se.String()
			if ctx.Err() != nil {
				inv.timed = true
				return
			}
			if ee, ok := err.(*exec.ExitError); ok {
				inv.exit = ee.ExitCode()
			} else if err != nil {
				inv.exit = -1
			}
		}(inv)
	}
	wg.Wait()
	bySource, byExit := map[string]int{}, map[int]int{}
	for _, inv := range invs {
		c.Evaluations++
		if inv.timed {
			c.Inconc("timeout")
			continue
		}
		cc := inv.cc
		wantOK := cc.parseOK && (inv.noTC || cc.tcOK)
		flags := strings.Join(inv.args[:len(inv.args)-1], " ")
		w := map[string]interface{}{"program": clip(cc.text, 4000), "flags": flags, "exit": inv.exit, "stdout": clip(inv.stdout, 1500), "stderr": clip(inv.stderr, 2500), "parse_ok": cc.parseOK, "typecheck_ok": cc.tcOK, "source": cc.source}
		printed := strings.HasPrefix(inv.stdout, "> ") || strings.Contains(inv.stdout, "\n> ")
		panicked := strings.Contains(inv.stderr, "goroutine ") && (strings.Contains(inv.stderr, "panic:") || strings.Contains(inv.stderr, "fatal error:"))
		class := func() string {
			switch {
			case !cc.parseOK:
				return "syntax error"
			case !cc.tcOK && !inv.noTC:
				return "type error"
			case !cc.tcOK:
				return "ill-typed, typecheck off"
			}
			return "well-typed"
		}()
		mode := "async"
		if strings.Contains(flags, "--sync") {
			mode = "np"
		}
		switch {
		case panicked && strings.Contains(inv.stderr, "RuntimeEnvironment).error"):
			open := strings.Contains(cc.text, "assuming")
			c.Violation(fmt.Sprintf("Go panic trace: runtime protocol error raised by RuntimeEnvironment.error/errorf (%s, typecheck off=%v, open program=%v, mode=%s)", class, inv.noTC, open, mode), w)
			continue
		case panicked:
			c.Violation(fmt.Sprintf("Go panic trace (%s): %s", class, normDeath(inv.stderr)), w)
			continue
		case wantOK && inv.exit != 0:
			c.Violation(fmt.Sprintf("non-zero exit status %d for a %s program", inv.exit, class), w)
			continue
		case !wantOK && inv.exit == 0:
			c.Violation(fmt.Sprintf("exit status 0 on a %s", class), w)
			continue
		case printed && (inv.exit != 0 || inv.noExec):
			what := "with a non-zero status"
			if inv.noExec {
				what = "although execution is switched off (" + execFlags(flags) + ")"
			}
			c.Violation("program output ('> label') "+what, w)
			continue
		case !wantOK && len(reLogLine.FindAllString(inv.stderr, -1)) != 1:
			c.Violation(fmt.Sprintf("%d diagnostics on a %s (expected one)", len(reLogLine.FindAllString(inv.stderr, -1)), class), w)
			continue
		}
		bySource[cc.source+"/"+class]++
		byExit[inv.exit]++
		c.Nontrivial(cc.id + flags)
		if len(c.Samples) < 5 && (len(c.Samples)%2 == 0) == wantOK && len(cc.text) < 600 {
			c.Sample(map[string]interface{}{"flags": flags, "class": class, "exit": inv.exit, "stderr": clip(inv.stderr, 200), "stdout_labels": strings.Count(inv.stdout, "> ")})
		}
	}
	{
		// pinned witness of N2
		cmd := exec.Command(bin, "--notypecheck", "/verif/known/N2.grits")
		var se bytes.Buffer
		cmd.Stderr = &se
		cmd.Run()
		pan := strings.Contains(se.String(), "RuntimeEnvironment).error") && strings.Contains(se.String(), "goroutine ")
		c.PinnedWitness("N2", pan, "Go panic trace: runtime protocol error raised by RuntimeEnvironment.error/errorf (pinned witness, typecheck off=true, open program=false, mode=async)", map[string]interface{}{"stderr": clip(se.String(), 1500)})
	}
	c.Extra["invocations_by_source_and_class"] = bySource
	c.Extra["invocations_by_exit_status"] = byExit
	c.Extra["files"] = len(cases)
	os.RemoveAll(dir)
	_ = sup.Job{}
	return c.Finish()
}

func execFlags(flags string) string {
	var fs []string
	for _, f := range strings.Fields(flags) {
		if strings.Contains(f, "execute") {
			fs = append(fs, f)
		}
	}
	return strings.Join(fs, " ")
}
