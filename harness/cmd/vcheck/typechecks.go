package main

import (
	"fmt"
	"math/rand"
	"os"
	"sort"
	"strings"

	vast "verif/ast"
	"verif/gen"
	"verif/mut"
	"verif/ref/rtypes"
	"verif/ref/typing"
	"verif/sup"
)

type envCase struct {
	defs   []rtypes.SDef
	defect string
	an     *rtypes.Analysis
	text   string
}

func genEnvs(c *Check, n int, salt int, defectPct int) []*envCase {
	r := rand.New(rand.NewSource(subSeed(c.Seed, salt*424243)))
	var out []*envCase
	for i := 0; i < n; i++ {
		defs, defect := rtypes.GenDefs(r, defectPct)
		out = append(out, &envCase{defs: defs, defect: defect, an: rtypes.Analyze(defs), text: rtypes.DefsText(defs)})
	}
	return out
}

// ---------------------------------------------------------------- C10

func checkC10() int {
	c := NewCheck("C10")
	pool := newPool()
	envs := genEnvs(c, c.pick(2500, 50000), 10, 45)
	c.Rule = "G2: random type-definition environments (aliases, mutual recursion, shifts, per-definition annotations in all 12 spellings, shuffled order), 45% with one injected defect (duplicate label, undefined name, alias cycle of length 1..5, invalid mode, illegal/flipped shift, changed or erased annotation, duplicate definition, annotation contradicting a shift, reference of another mode); oracle R3: Grits accepts the program consisting of the definitions iff R3 finds them well formed, and unfolding an accepted name needs at most |D|+1 steps and ends in a structural type; program level: G1 programs and their mode / type-definition mutants (incl. uncalled recoloured copies; 40% of the texts with head mode annotations omitted), oracle R1: an accepted program has no ill-formed written type; non-trivial = distinct environment with >= 3 definitions"
	c.Assumptions = []string{"R3's rules are the sentence in the statement of C10/C16 (definedness, distinct labels, contractivity, valid modes, uniform modes up to shifts, legal shifts, directional inference)"}
	jobs := make([]sup.Job, len(envs))
	for i, e := range envs {
		jobs[i] = sup.Job{Kind: "defs", Text: e.text, TypeBudget: 2000000}
	}
	outs := pool.Run(jobs, nil)
	byDefect, byReason, agree := map[string]int{}, map[string]int{}, map[string]int{}
	for i, o := range outs {
		e := envs[i]
		c.Evaluations++
		if o.Died() || o.PostDeath != "" {
			c.Violation("definitions kill the host: "+normDeath(o.Deaths0()), map[string]interface{}{"definitions": e.text, "stderr": clip(o.Deaths0(), 4000)})
			continue
		}
		if o.Res == nil {
			c.Inconc("watchdog")
			continue
		}
		if !o.Res.ParseOK {
			c.Violation("generated definitions do not parse: "+errClass(o.Res.ParseErr), map[string]interface{}{"definitions": e.text})
			continue
		}
		d := e.defect
		if strings.HasPrefix(d, "alias-cycle") {
			d = "alias-cycle"
		}
		byDefect[d]++
		if !e.an.WF {
			byReason[e.an.Reason]++
		}
		w := map[string]interface{}{"definitions": e.text, "injected": e.defect, "reference_wellformed": e.an.WF, "reference_reason": e.an.Reason, "grits_error": o.Res.TcErr}
		switch {
		case o.Res.TcOK && !e.an.WF:
			c.Violation("accepts ill-formed definitions: "+e.an.Reason, w)
			continue
		case !o.Res.TcOK && e.an.WF:
			c.Violation("rejects well-formed definitions: "+errClass(o.Res.TcErr), w)
			continue
		}
		agree[fmt.Sprint(e.an.WF)]++
		if o.Res.TcOK {
			bad := false
			for _, td := range o.Res.Defs {
				if td.UnfoldSteps > int64(len(e.defs))+1 || td.UnfoldKind == "name" || td.UnfoldKind == "nil" {
					w["name"] = td.Name
					w["unfold_steps"] = td.UnfoldSteps
					c.Violation("unfolding an accepted name does not reach a structural type within |D|+1 steps", w)
					bad = true
					break
				}
			}
			if bad {
				continue
			}
		}
		if len(e.defs) >= 3 {
			c.Nontrivial(e.text)
		}
		if len(c.Samples) < 4 && len(e.defs) >= 3 && (len(c.Samples)%2 == 0) == e.an.WF {
			c.Sample(map[string]interface{}{"definitions": e.text, "injected": e.defect, "reference": fmt.Sprintf("wf=%v %s", e.an.WF, e.an.Reason), "grits": clip(o.Res.TcErr, 120)})
		}
	}
	// annotations: G1 programs and their mode / type-definition mutants (recoloured
	// signatures, process types, cut annotations, definitions; uncalled recoloured copies),
	// two fifths written with head annotations omitted; R1 applies the same formation rules
	// to every written type
	byOp := map[string]int{}
	for _, m := range mutantCases(c, pool, c.pick(150, 1200), c.pick(3000, 40000), 10, []string{"mode", "typedef"}, mixedOpt) {
		c.Evaluations++
		gv := gritsVerdict(m.o)
		if gv == "hung" {
			c.Inconc("watchdog")
			continue
		}
		if gv == "died" || m.v.Kind == typing.Unknown {
			continue
		}
		if p, sig := judge(m); p == "C10" {
			c.Violation(sig, mwitness(m))
			continue
		}
		if m.v.Kind == typing.Reject && typing.TypeFormation(m.v.Reason) {
			byOp[m.op+"/"+m.v.Reason]++
			c.Nontrivial(m.text)
		}
	}
	c.Extra["program_level_illformed_annotations_rejected_by_both"] = byOp
	if b, err := os.ReadFile("/verif/known/F15.grits"); err == nil {
		o := pool.Run([]sup.Job{{Kind: "typecheck", Text: string(b)}}, nil)[0]
		c.PinnedWitness("F15", o.Res != nil && o.Res.TcOK, "accepts ill-formed definitions: head-annotation-contradicts-shift", map[string]interface{}{"definitions": string(b)})
	}
	c.Extra["environments_by_injected_defect"] = byDefect
	c.Extra["reference_illformed_reasons"] = byReason
	c.Extra["agreements_by_wellformedness"] = agree
	return c.Finish()
}

// ---------------------------------------------------------------- C08

func checkC08() int {
	c := NewCheck("C08")
	pool := newPool()
	nEnv := c.pick(700, 10000)
	r := rand.New(rand.NewSource(subSeed(c.Seed, 808)))
	c.Rule = "G2 well-formed environments extended with equal-by-construction variants (unrolled copy, alias, isomorphic copy of the whole environment, permuted branches) and one-difference variants; all ordered pairs of names plus pairs of sub-terms (<= 400 queries per environment) are put to types.EqualType on the types Grits itself parsed; oracle: bisimilarity of the fully moded regular trees built by R3; a worker death or the step budget (1e6 + 1e3*size^2) counts as non-termination; non-trivial = distinct environment with a recursive definition and >= 20 queries"
	c.Assumptions = []string{"only environments R3 finds well formed and Grits accepts are queried", "R3 bisimulation remembers visited pairs by node identity"}
	type ec struct {
		defs    []rtypes.SDef
		an      *rtypes.Analysis
		text    string
		queries []sup.EqQuery
		specs   [][2]string
	}
	var cases []*ec
	for len(cases) < nEnv {
		defs, _ := rtypes.GenDefs(r, 0)
		if an := rtypes.Analyze(defs); !an.WF {
			continue
		}
		defs = rtypes.EqVariants(r, defs)
		an := rtypes.Analyze(defs)
		if !an.WF {
			continue
		}
		e := &ec{defs: defs, an: an, text: rtypes.DefsText(defs)}
		var specs []string
		for _, d := range defs {
			specs = append(specs, d.Name)
		}
		// sub-terms of a few definitions
		for k := 0; k < 3; k++ {
			d := defs[r.Intn(len(defs))]
			var ps []string
			rtypes.Paths(d.Body, "", &ps, 8)
			for _, p := range ps[1:] {
				specs = append(specs, d.Name+"#"+p)
			}
		}
		for _, a := range specs {
			for _, b := range specs {
				if len(e.queries) < 400 {
					e.queries = append(e.queries, sup.EqQuery{A: a, B: b})
					e.specs = append(e.specs, [2]string{a, b})
				}
			}
		}
		cases = append(cases, e)
	}
	// deep chains of branching definitions: two isomorphic families compared at the head
	for _, n := range []int{12, 24, 40} {
		for _, k := range []int{2, 3} {
			defs := rtypes.DeepChains(n, k, []string{"", "lin", "rep"}[(n+k)%3])
			an := rtypes.Analyze(defs)
			e := &ec{defs: defs, an: an, text: rtypes.DefsText(defs)}
			for _, q := range [][2]string{{"ChA0", "ChB0"}, {"ChB0", "ChA0"}, {"ChA0", "ChA0"}, {"ChA1", "ChB1"}, {"ChA0", "ChB1"}, {"ChA0", "ChB2"}} {
				e.queries = append(e.queries, sup.EqQuery{A: q[0], B: q[1]})
				e.specs = append(e.specs, q)
			}
			cases = append(cases, e)
		}
	}
	jobs := make([]sup.Job, len(cases))
	for i, e := range cases {
		size := int64(len(e.text))
		jobs[i] = sup.Job{Kind: "eq", Text: e.text, Queries: e.queries, TypeBudget: 1000000 + 1000*size*size/100}
	}
	outs := pool.Run(jobs, nil)
	resolve := func(e *ec, spec string) *vast.Ty {
		name, path, has := strings.Cut(spec, "#")
		if !has {
			return vast.Named(name, e.an.Modes[name])
		}
		return rtypes.Sub(e.an.Trees[name], path)
	}
	queries, trueAnswers, maxSteps, reflTrans := 0, 0, int64(0), 0
	for i, o := range outs {
		e := cases[i]
		c.Evaluations++
		w := map[string]interface{}{"definitions": e.text}
		if o.Died() {
			c.Violation("EqualType does not terminate (host died): "+normDeath(o.Deaths[0]), merge(w, "stderr", clip(o.Deaths[0], 3000)))
			continue
		}
		if o.Res == nil {
			c.Inconc("watchdog")
			continue
		}
		if !o.Res.ParseOK || !o.Res.TcOK {
			// well-formedness disagreement: C10's business
			c.Inconc("environment-not-accepted")
			continue
		}
		if len(o.Res.Eq) != len(e.queries) {
			c.Inconc("short-answer")
			continue
		}
		if len(o.Res.TypeSteps) > 0 && o.Res.TypeSteps[0] > maxSteps {
			maxSteps = o.Res.TypeSteps[0]
		}
		ans := map[[2]string]int{}
		bad := false
		for k, q := range e.specs {
			got := o.Res.Eq[k]
			ans[q] = got
			ta, tb := resolve(e, q[0]), resolve(e, q[1])
			if got < 0 || ta == nil || tb == nil {
				continue
			}
			queries++
			want := vast.Equal(ta, tb, e.an.Trees)
			if want {
				trueAnswers++
			}
			if (got == 1) != want && !bad {
				bad = true
				dir := "true for unequal types"
				if want {
					dir = "false for equal types"
				}
				w["query"] = q
				w["reference"] = want
				c.Violation("EqualType answers "+dir, w)
			}
		}
		if bad {
			continue
		}
		// symmetry on the answers themselves (independent of the oracle)
		for q, g := range ans {
			if h, ok := ans[[2]string{q[1], q[0]}]; ok && h != g && g >= 0 && h >= 0 {
				w["query"] = q
				c.Violation("EqualType is not symmetric", w)
				bad = true
				break
			}
		}
		if bad {
			continue
		}
		// reflexivity and transitivity on the answers themselves (independent of the oracle)
		succ := map[string][]string{}
		for q, g := range ans {
			if q[0] == q[1] && g == 0 {
				w["query"] = q
				c.Violation("EqualType is not reflexive", w)
				bad = true
				break
			}
			if g == 1 && q[0] != q[1] {
				succ[q[0]] = append(succ[q[0]], q[1])
			}
		}
		for a, bs := range succ {
			if bad {
				break
			}
			for _, b := range bs {
				for _, cc := range succ[b] {
					if g, ok := ans[[2]string{a, cc}]; ok && g == 0 && !bad {
						w["query"] = [3]string{a, b, cc}
						c.Violation("EqualType is not transitive", w)
						bad = true
					}
				}
			}
		}
		if bad {
			continue
		}
		reflTrans++
		rec := false
		for _, d := range e.defs {
			if strings.Contains(d.Body.Text(), d.Name) {
				rec = true
			}
		}
		if rec && len(e.queries) >= 20 {
			c.Nontrivial(e.text)
		}
		if len(c.Samples) < 3 && rec {
			c.Sample(map[string]interface{}{"definitions": e.text, "queries": len(e.queries), "example_query": e.specs[len(e.specs)/2], "answer": o.Res.Eq[len(e.specs)/2]})
		}
	}
	c.Extra["queries_compared"] = queries
	c.Extra["queries_with_answer_true"] = trueAnswers
	c.Extra["environments_whose_answers_are_reflexive_symmetric_transitive"] = reflTrans
	c.Extra["max_equality_steps_in_one_environment"] = maxSteps
	return c.Finish()
}

func merge(w map[string]interface{}, k string, v interface{}) map[string]interface{} {
	w[k] = v
	return w
}

// ---------------------------------------------------------------- C16

func treeDiff(a *sup.TyNode, b *vast.Ty, path string) string {
	if a == nil || b == nil {
		return path + ": missing"
	}
	kind := map[vast.Kind]string{vast.KUnit: "unit", vast.KSend: "send", vast.KRecv: "recv", vast.KPlus: "plus", vast.KWith: "with", vast.KUp: "up", vast.KDown: "down", vast.KName: "name"}[b.K]
	if a.K != kind {
		return fmt.Sprintf("%s: constructor %s vs %s", path, a.K, kind)
	}
	if a.M != b.M.String() {
		return fmt.Sprintf("%s: mode %s, reference infers %s", path, a.M, b.M)
	}
	switch b.K {
	case vast.KName:
		if a.Name != b.Name {
			return path + ": name"
		}
	case vast.KSend, vast.KRecv:
		if d := treeDiff(a.Kids[0], b.L, path+".l"); d != "" {
			return d
		}
		return treeDiff(a.Kids[1], b.R, path+".r")
	case vast.KPlus, vast.KWith:
		if len(a.Kids) != len(b.Br) {
			return path + ": branches"
		}
		for i := range b.Br {
			if a.Lbl[i] != b.Br[i].L {
				return path + ": label"
			}
			if d := treeDiff(a.Kids[i], b.Br[i].T, fmt.Sprintf("%s.%d", path, i)); d != "" {
				return d
			}
		}
	case vast.KUp, vast.KDown:
		if a.From != b.From.String() {
			return path + ": shift source mode"
		}
		return treeDiff(a.Kids[0], b.L, path+".c")
	}
	return ""
}

func checkC16() int {
	c := NewCheck("C16")
	pool := newPool()
	envs := genEnvs(c, c.pick(1500, 40000), 16, 25)
	c.Rule = "G2 environments (25% with an injected defect), cycles of 2..4 unannotated non-default-mode definitions whose only mode source hangs off one member (with unannotated users, shuffled order) and G1 programs; after a successful Typecheck every type node of every definition (and of function signatures / process types of G1 programs) is read through exported fields and must carry one of the four modes, equal to R3's directional inference (annotation, else first mode fixed by a shift or named component, else replicable; shift continuation = source mode; reference = mode of the definition); verdict and modes must be unchanged when the declarations are permuted and when the inferred head annotation is written explicitly; non-trivial = distinct accepted environment with >= 1 unannotated definition whose mode is not the default"
	c.Assumptions = []string{"R3's inference is the sentence in the statement of C16, evaluated as a least fixpoint over the definition graph"}
	r := rand.New(rand.NewSource(subSeed(c.Seed, 1616)))
	// cycles of unannotated definitions whose only mode source hangs off one member
	cyc := 0
	for k := 0; k < c.pick(400, 8000); k++ {
		defs := rtypes.GenCycleDefs(r)
		e := &envCase{defs: defs, an: rtypes.Analyze(defs), text: rtypes.DefsText(defs)}
		if e.an.WF {
			cyc++
		}
		envs = append(envs, e)
	}
	// long protocols: 65..150 unannotated states, the mode fixed by the last one
	for k := 0; k < c.pick(12, 200); k++ {
		defs := rtypes.GenChainDefs(r)
		envs = append(envs, &envCase{defs: defs, an: rtypes.Analyze(defs), text: rtypes.DefsText(defs)})
	}
	c.Extra["cycle_environments_wellformed"] = cyc
	type variant struct {
		env  *envCase
		kind string
		text string
	}
	var vs []variant
	for _, e := range envs {
		vs = append(vs, variant{e, "original", e.text})
		// permuted
		p := append([]rtypes.SDef(nil), e.defs...)
		r.Shuffle(len(p), func(i, j int) { p[i], p[j] = p[j], p[i] })
		vs = append(vs, variant{e, "permuted", rtypes.DefsText(p)})
		// inferred annotation made explicit (only meaningful when the reference can infer)
		if e.an.WF {
			x := append([]rtypes.SDef(nil), e.defs...)
			for i := range x {
				if x[i].Ann == "" && x[i].Body.K != vast.KUp && x[i].Body.K != vast.KDown {
					x[i].Ann = e.an.Modes[x[i].Name].String()
				}
			}
			vs = append(vs, variant{e, "explicit", rtypes.DefsText(x)})
		}
	}
	jobs := make([]sup.Job, len(vs))
	for i, v := range vs {
		jobs[i] = sup.Job{Kind: "defs", Text: v.text, TypeBudget: 2000000}
	}
	outs := pool.Run(jobs, nil)
	verdictOf := map[*envCase]map[string]bool{}
	inferredNonDefault := 0
	for i, o := range outs {
		v := vs[i]
		e := v.env
		c.Evaluations++
		if o.Died() || o.Res == nil || !o.Res.ParseOK {
			if o.Res == nil && !o.Died() {
				c.Inconc("watchdog")
			}
			continue // C09 / C10
		}
		if verdictOf[e] == nil {
			verdictOf[e] = map[string]bool{}
		}
		verdictOf[e][v.kind] = o.Res.TcOK
		w := map[string]interface{}{"definitions": v.text, "variant": v.kind, "original": e.text}
		if !o.Res.TcOK {
			continue
		}
		if !e.an.WF {
			continue // accepted although ill-formed: C10's business
		}
		bad := false
		for _, td := range o.Res.Defs {
			want, ok := e.an.Modes[td.Name]
			if !ok {
				continue
			}
			if td.Mode != want.String() {
				w["name"] = td.Name
				c.Violation(fmt.Sprintf("definition mode differs from the inferred one (%s variant)", v.kind), merge(w, "detail", fmt.Sprintf("%s: Grits %s, reference %s", td.Name, td.Mode, want)))
				bad = true
				break
			}
			if d := treeDiff(td.Tree, e.an.Trees[td.Name], td.Name); d != "" {
				c.Violation(fmt.Sprintf("a type node carries a mode other than the inferred one (%s variant)", v.kind), merge(w, "detail", d))
				bad = true
				break
			}
		}
		if bad {
			continue
		}
		if v.kind == "original" {
			nd := false
			for _, d := range e.defs {
				if d.Ann == "" && e.an.Modes[d.Name] != vast.Rep {
					nd = true
				}
			}
			if nd {
				inferredNonDefault++
				c.Nontrivial(e.text)
				if len(c.Samples) < 3 {
					var ms []string
					for _, td := range o.Res.Defs {
						ms = append(ms, td.Name+"="+td.Mode+" "+td.Body)
					}
					sort.Strings(ms)
					c.Sample(map[string]interface{}{"definitions": e.text, "modes_read_back": ms})
				}
			}
		}
	}
	for e, vd := range verdictOf {
		o, ok := vd["original"]
		if !ok {
			continue
		}
		for _, k := range []string{"permuted", "explicit"} {
			if x, ok := vd[k]; ok && x != o {
				c.Violation(fmt.Sprintf("verdict changes under the %s variant", k), map[string]interface{}{"definitions": e.text, "original_accepted": o})
			}
		}
	}
	// G1 programs: signatures and process types
	cases := genCases(c, c.pick(100, 1000), 16, mixedOpt)
	var pj []sup.Job
	for _, pc := range cases {
		pj = append(pj, sup.Job{Kind: "defs", Text: pc.Text})
	}
	sigs := 0
	for i, o := range pool.Run(pj, nil) {
		c.Evaluations++
		if o.Res == nil || !o.Res.TcOK {
			continue
		}
		pc := cases[i]
		want := map[string]*vast.Ty{}
		for _, f := range pc.P.Funcs {
			want["fun:"+f.Name+":ret"] = f.Ret
			for _, p := range f.Params {
				want["fun:"+f.Name+":"+p.N] = p.T
			}
		}
		for _, pr := range pc.P.Procs {
			want["prc:"+pr.Names[0]] = pr.T
		}
		for _, td := range append(o.Res.Sigs, o.Res.Defs...) {
			if strings.Contains(td.Body, "unset") || strings.Contains(td.Body, "invalid") || td.Mode == "unset" {
				c.Violation("a type is left without a mode after successful typechecking", map[string]interface{}{"program": pc.Text, "where": td.Name, "type": td.Body})
				break
			}
			if w, ok := want[td.Name]; ok && td.Tree != nil {
				sigs++
				if d := treeDiff(td.Tree, w, td.Name); d != "" {
					c.Violation("a signature type node carries a mode other than the annotated / inferred one", map[string]interface{}{"program": pc.Text, "detail": d})
					break
				}
			}
		}
		c.Nontrivial(pc.ID)
	}
	c.Extra["environments"] = len(envs)
	c.Extra["accepted_environments_with_non_default_inferred_mode"] = inferredNonDefault
	c.Extra["g1_signature_types_compared"] = sigs
	return c.Finish()
}

// ---------------------------------------------------------------- C15

func checkC15() int {
	c := NewCheck("C15")
	pool := newPool()
	c.Rule = "types: every definition of G2 well-formed environments (left-nested products and arrows, shifts in operand position, choices), plus deeply nested operator trees (depth 3..6), is printed with SessionType.String() and parsed back as 'type rt = <head mode> <printed>'; the two Grits type values must be structurally equal, modes included. terms: every function body of G1 programs and of their polarity mutants (written with self, with and without explicit polarities on every kind of name position) is printed with Form.String() and parsed back; the two Form trees are compared by a reflective walk (identifiers, self flags, polarities, labels, shape), not by EqualForm; non-trivial = distinct definition / function body compared"
	c.Assumptions = []string{"the comparison of the two Grits values runs in the worker next to the calls it judges"}
	envs := genEnvs(c, c.pick(800, 25000), 15, 0)
	var jobs []sup.Job
	var src []string
	for _, e := range envs {
		if e.an.WF {
			jobs = append(jobs, sup.Job{Kind: "roundtrip", Text: e.text})
			src = append(src, e.text)
		}
	}
	// deeply nested operator trees (depth 3..6: binary operators and shifts in every operand
	// position), where bracket placement is decided
	{
		r := rand.New(rand.NewSource(subSeed(c.Seed, 1515)))
		deep := 0
		for deep < c.pick(1500, 30000) {
			defs := rtypes.GenDeepDefs(r)
			if an := rtypes.Analyze(defs); !an.WF {
				continue
			}
			deep++
			t := rtypes.DefsText(defs)
			jobs = append(jobs, sup.Job{Kind: "roundtrip", Text: t})
			src = append(src, t)
		}
	}
	nTypes := len(jobs)
	cases := genCases(c, c.pick(150, 3000), 15, func(i int) *genOpt { return polOpt(i) })
	mr := rand.New(rand.NewSource(subSeed(c.Seed, 1516)))
	for _, pc := range cases {
		jobs = append(jobs, sup.Job{Kind: "termrt", Text: pc.Text})
		src = append(src, pc.Text)
		// the same program with identifiers of 70..120 characters
		if q, _ := mut.Inflate(pc.P, mr, "long-names"); q != nil && len(jobs)%3 == 0 {
			t := q.Text()
			jobs = append(jobs, sup.Job{Kind: "termrt", Text: t})
			src = append(src, t)
		}
		// explicit polarities (either sign: printing does not depend on typing) on payloads,
		// continuations, arguments and on the binders of recv / split / case / cut
		for k := 0; k < 5; k++ {
			if m := mut.Mutate(pc.P, mr, "polarity"); m != nil {
				t := m.P.Text()
				jobs = append(jobs, sup.Job{Kind: "termrt", Text: t})
				src = append(src, t)
			}
		}
	}
	outs := pool.Run(jobs, nil)
	types, terms, leftNested := 0, 0, 0
	for i, o := range outs {
		c.Evaluations++
		if o.Died() {
			c.Violation("printing or re-parsing kills the host: "+normDeath(o.Deaths[0]), map[string]interface{}{"text": src[i]})
			continue
		}
		if o.Res == nil {
			c.Inconc("watchdog")
			continue
		}
		if !o.Res.ParseOK {
			// every text of this workload is grammatical by construction
			c.Violation("a generated text does not parse, so nothing can be printed from it: "+errClass(o.Res.ParseErr), map[string]interface{}{"text": clip(src[i], 4000), "parse_error": o.Res.ParseErr})
			continue
		}
		for _, rt := range o.Res.RoundTrip {
			w := map[string]interface{}{"text": src[i], "printed": rt.Printed, "name": rt.Name, "where": rt.Where, "reparse_error": rt.Err}
			kind := "type"
			if i >= nTypes {
				kind = "term"
				terms++
			} else {
				types++
				if strings.Contains(rt.Printed, "*") || strings.Contains(rt.Printed, "-*") {
					leftNested++
				}
			}
			switch {
			case !rt.OK:
				c.Violation(kind+": the printed form does not parse", w)
			case !rt.Same && kind == "type" && rt.LeftOp:
				c.Violation("type: printed form parses to a different type (left operand is a product, arrow or shift)", w)
			case !rt.Same && kind == "type":
				c.Violation("type: printed form parses to a different type", w)
			case !rt.Same && strings.Contains(rt.Where, "polarity"):
				c.Violation("term: printed form loses an explicit polarity", w)
			case !rt.Same:
				c.Violation("term: printed form parses to a different term ("+rt.Where[strings.LastIndex(rt.Where, "@")+1:]+")", w)
			default:
				c.Nontrivial(kind + ":" + rt.Printed)
				if len(c.Samples) < 4 && len(rt.Printed) > 30 && len(rt.Printed) < 200 {
					c.Sample(map[string]interface{}{"kind": kind, "printed": rt.Printed})
				}
			}
		}
	}
	c.Extra["types_round_tripped"] = types
	c.Extra["types_with_binary_operators"] = leftNested
	c.Extra["terms_round_tripped"] = terms
	return c.Finish()
}

type genOpt = gen.Opt

// polOpt: programs written with self only (no explicit provider names), half of them with
// many explicit polarities.
func polOpt(i int) *gen.Opt {
	o := gen.Opt{MaxSplit: 3, Pol: 0, Alias: 30, ExplicitSelf: 15, ExplicitProv: 0, Exec: 10, Print: 10, TopMax: 3, Fuel: 3, MultiProv: 20, Drop: 12, Split: 12, Mixed: i%3 == 0, MainMode: []vast.Mode{vast.Lin, vast.Rep, vast.Aff, vast.Mul}[i%4]}
	if i%2 == 1 {
		o.Pol = 25
	}
	if i%4 >= 2 {
		o.Alpha = 60 // bound names with every initial letter
	}
	return &o
}
