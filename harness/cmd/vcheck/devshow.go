package main

import (
	"strings"
	"encoding/json"
	"os"
	"fmt"
	"math/rand"
	"strconv"

	"verif/gen"
	"verif/mut"
	"verif/ref/sem"
	"verif/ref/typing"
	"verif/sup"
)

// devShow: print generated program <seed>, optionally mutated by operator <op>, with the
// reference verdict and the real verdict (development aid).
//   dev show <seed> [op [tries]]
func devShow(pool *sup.Pool, args []string) int {
	s, _ := strconv.Atoi(args[0])
	var opt *gen.Opt
	if os.Getenv("VERIF_OPT") == "pol" {
		opt = polOpt(1)
		opt.Pol = 30
	}
	p, _, _ := gen.Generate(int64(s), opt)
	if len(args) == 1 {
		fmt.Println(p.Text())
		fmt.Println("R1:", typing.Check(p))
		return 0
	}
	tries := 1
	if len(args) > 2 {
		tries, _ = strconv.Atoi(args[2])
	}
	r := rand.New(rand.NewSource(int64(s)))
	for k := 0; k < tries; k++ {
		m := mut.MutateOp(p, r, args[1])
		if m == nil {
			fmt.Println("operator does not apply")
			continue
		}
		t := m.P.Text()
		o := pool.Run([]sup.Job{{Kind: "typecheck", Text: t}}, nil)[0]
		fmt.Println(t)
		fmt.Println("mutation:", m.Desc)
		fmt.Println("R1:", typing.Check(m.P))
		if o.Res != nil {
			fmt.Println("real: parse", o.Res.ParseOK, "tc", o.Res.TcOK, o.Res.TcErr)
		}
	}
	return 0
}

func init() { devCmds["show"] = devShow }

// devTc: typecheck a file through the worker and print the raw result and C09's judgement.
func devTc(pool *sup.Pool, args []string) int {
	b, err := os.ReadFile(args[0])
	if err != nil {
		fmt.Println(err)
		return 2
	}
	o := pool.Run([]sup.Job{{Kind: "typecheck", Text: string(b), TypeBudget: 5000000}}, nil)[0]
	if o.Died() {
		fmt.Println("DIED:", clip(o.Deaths[0], 3000))
	}
	if o.Res != nil {
		j, _ := json.MarshalIndent(o.Res, "", " ")
		fmt.Println(clip(string(j), 3000))
	}
	fmt.Println("post-death:", clip(o.PostDeath, 500))
	fmt.Println("C09 judgement:", tcTotality(o))
	return 0
}

func init() { devCmds["tc"] = devTc }

// devStress: run one program file n times in the given mode over the whole configuration
// matrix and report the distinct outcomes (multiset, completion, what is left alive).
func devStress(pool *sup.Pool, args []string) int {
	b, err := os.ReadFile(args[0])
	if err != nil {
		fmt.Println(err)
		return 2
	}
	mode, n := args[1], 200
	if len(args) > 2 {
		n, _ = strconv.Atoi(args[2])
	}
	pc := &progCase{ID: "file", Text: string(b)}
	var jobs []sup.Job
	var cfgs []runCfg
	for k := 0; k < n; k++ {
		cfg := cfgFor(int64(k), k, k, []string{mode})
		cfgs = append(cfgs, cfg)
		jobs = append(jobs, jobFor(pc, cfg, uint64(k), 5000000))
	}
	seen := map[string]int{}
	first := map[string]string{}
	for i, o := range pool.Run(jobs, nil) {
		key := "no result"
		if o.Died() {
			key = "died: " + normDeath(o.Deaths[0])
		} else if o.Res != nil && o.Res.Run != nil {
			r := o.Res.Run
			key = fmt.Sprintf("ms=%s live=%v premature=%v watchdog=%v overrun=%v", sem.MS(r.Stdout), liveStrings(r.Live), r.Premature, r.Watchdog, r.Overrun)
		} else if o.Res != nil {
			key = fmt.Sprintf("parse=%v tc=%v %s", o.Res.ParseOK, o.Res.TcOK, o.Res.TcErr)
		}
		seen[key]++
		if _, ok := first[key]; !ok {
			first[key] = cfgs[i].String()
		}
	}
	for k, v := range seen {
		fmt.Printf("%5d x %s   (first: %s)\n", v, k, first[k])
	}
	return 0
}

func init() { devCmds["stress"] = devStress }

// devInflate: check every Inflate kind on n generated programs against R1, R2 and the real
// typechecker (development aid).
func devInflate(pool *sup.Pool, args []string) int {
	n, _ := strconv.Atoi(args[0])
	r := rand.New(rand.NewSource(99))
	var jobs []sup.Job
	var desc []string
	for i := 0; i < n; i++ {
		p, _, _ := gen.Generate(int64(1000+i), nil)
		for _, k := range []string{"alias-chain", "pad-types", "pad-funcs", "cut-chain", "long-names", "many-params"} {
			q, kind := mut.Inflate(p, r, k)
			if v := typing.Check(q); v.Kind != typing.Accept {
				fmt.Println("R1 rejects", kind, v)
				fmt.Println(q.Text())
				return 1
			}
			m0, m1 := sem.New(p), sem.New(q)
			var kept []string
			m1ok := m1.Lazy(4000000)
			for _, l := range m1.Prints {
				if !strings.HasPrefix(l, "manyp") {
					kept = append(kept, l)
				}
			}
			if !m0.Lazy(400000) || !m1ok || sem.MS(m0.Prints) != sem.MS(kept) {
				fmt.Println("R2 differs", kind, sem.MS(m0.Prints), sem.MS(m1.Prints))
				return 1
			}
			jobs = append(jobs, sup.Job{Kind: "typecheck", Text: q.Text(), TypeBudget: 50000000})
			desc = append(desc, kind)
		}
	}
	bad := 0
	for i, o := range pool.Run(jobs, nil) {
		if o.Died() || o.Res == nil || !o.Res.ParseOK || !o.Res.TcOK {
			bad++
			if bad < 4 {
				fmt.Println("real checker:", desc[i], o.Died(), o.Res != nil && o.Res.ParseOK, func() string { if o.Res != nil { return o.Res.TcErr + o.Res.ParseErr }; return "" }())
				fmt.Println(clip(jobs[i].Text, 1500))
			}
		}
	}
	fmt.Println(len(jobs), "inflated programs,", bad, "not accepted by Grits")
	return 0
}

func init() { devCmds["inflate"] = devInflate }

// devAlpha: parse generated programs whose bound names use every initial letter; print the
// first one the parser rejects (development aid).
func devAlpha(pool *sup.Pool, args []string) int {
	n, _ := strconv.Atoi(args[0])
	var jobs []sup.Job
	for i := 0; i < n; i++ {
		o := polOpt(i)
		o.Pol, o.Alpha = 40, 60
		p, _, _ := gen.Generate(int64(5000+i), o)
		jobs = append(jobs, sup.Job{Kind: "parse", Text: p.Text()})
	}
	bad := 0
	for i, o := range pool.Run(jobs, nil) {
		if o.Res != nil && !o.Res.ParseOK {
			bad++
			if bad == 1 {
				os.WriteFile("/tmp/alpha_bad.grits", []byte(jobs[i].Text), 0o644)
				fmt.Println("first rejected program written to /tmp/alpha_bad.grits:", o.Res.ParseErr)
			}
		}
	}
	fmt.Println(n, "programs,", bad, "rejected by the parser")
	return 0
}

func init() { devCmds["alpha"] = devAlpha }

// devGenAlpha: generate n programs with alphabet-wide names under several option sets and
// check each against R1 (no worker needed).
func devGenAlpha(pool *sup.Pool, args []string) int {
	n, _ := strconv.Atoi(args[0])
	bad := 0
	for i := 0; i < n; i++ {
		o := polOpt(i)
		o.Alpha = 60
		if i%3 == 0 {
			o.Pol, o.Ctor = 55, 70
		}
		p, _, _ := gen.Generate(int64(7000+i), o)
		if v := typing.Check(p); v.Kind != typing.Accept {
			bad++
			if bad == 1 {
				fmt.Println(v)
				fmt.Println(p.Text())
			}
		}
	}
	fmt.Println(n, "programs,", bad, "rejected by R1")
	return 0
}

func init() { devCmds["genalpha"] = devGenAlpha }

// devUnknown: tabulate R1's abstentions over many mutants against Grits' verdict.
func devUnknown(pool *sup.Pool, args []string) int {
	n, _ := strconv.Atoi(args[0])
	r := rand.New(rand.NewSource(4242))
	var jobs []sup.Job
	var reasons []string
	for i := 0; len(jobs) < n && i < 50*n; i++ {
		p, _, _ := gen.Generate(int64(9000+i%400), mixedOpt(i))
		m := mut.Mutate(p, r)
		if m == nil {
			continue
		}
		v := typing.Check(m.P)
		if v.Kind != typing.Unknown {
			continue
		}
		jobs = append(jobs, sup.Job{Kind: "typecheck", Text: m.P.Text()})
		reasons = append(reasons, v.Reason+" ("+m.Op+")")
	}
	tab := map[string][2]int{}
	ex := map[string]string{}
	for i, o := range pool.Run(jobs, nil) {
		if o.Res == nil || !o.Res.ParseOK {
			continue
		}
		t := tab[reasons[i]]
		if o.Res.TcOK {
			t[0]++
			if ex[reasons[i]] == "" {
				ex[reasons[i]] = jobs[i].Text
			}
		} else {
			t[1]++
		}
		tab[reasons[i]] = t
	}
	for k, v := range tab {
		fmt.Printf("%-70s accepted %4d rejected %4d\n", k, v[0], v[1])
	}
	for k, t := range ex {
		os.WriteFile("/tmp/unknown_"+strings.ReplaceAll(strings.Fields(k)[0], "/", "_")+".grits", []byte(t), 0o644)
	}
	return 0
}

func init() { devCmds["unknown"] = devUnknown }
