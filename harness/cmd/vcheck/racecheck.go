package main

import (
	"fmt"
	"os"
	"path/filepath"
	"regexp"
	"sort"
	"strings"

	vast "verif/ast"
	"verif/gen"
	"verif/sup"
)

// ---------------------------------------------------------------- C13

type raceReport struct {
	a, b  string // innermost grits/ function of each access
	outA  string // outermost grits/ function of each access
	outB  string
	block string
}

var reFrame = regexp.MustCompile(`^\s+([\w./*()\[\]]+)\(`)

// parseRaces splits race detector output into reports.
func parseRaces(text string) (reports []raceReport, harnessOnly int) {
	blocks := strings.Split(text, "WARNING: DATA RACE")
	for _, b := range blocks[1:] {
		if i := strings.Index(b, "=================="); i >= 0 {
			b = b[:i]
		}
		// the two access stacks are the first two paragraphs
		paras := strings.Split(b, "\n\n")
		var stacks [][]string
		for _, p := range paras {
			if strings.Contains(p, " by goroutine ") || strings.Contains(p, " by main goroutine") {
				var fr []string
				for _, l := range strings.Split(p, "\n") {
					if m := reFrame.FindStringSubmatch(l); m != nil {
						fr = append(fr, m[1])
					}
				}
				stacks = append(stacks, fr)
			}
			if len(stacks) == 2 {
				break
			}
		}
		if len(stacks) < 2 {
			continue
		}
		inner := func(fr []string) (string, string) {
			in, out := "", ""
			for _, f := range fr {
				if strings.HasPrefix(f, "grits/") && !strings.Contains(f, ".vh") && !strings.Contains(f, "Verif") {
					if in == "" {
						in = f
					}
					out = f
				}
			}
			return in, out
		}
		a, oa := inner(stacks[0])
		bb, ob := inner(stacks[1])
		if a == "" && bb == "" {
			harnessOnly++
			continue
		}
		if a > bb {
			a, bb, oa, ob = bb, a, ob, oa
		}
		reports = append(reports, raceReport{a: a, b: bb, outA: oa, outB: ob, block: clip(b, 3000)})
	}
	return
}

func checkC13() int {
	c := NewCheck("C13")
	raceDir := "/verif/logs/race"
	os.RemoveAll(raceDir)
	os.MkdirAll(raceDir, 0o755)
	pool := newPool()
	pool.Bin = binDir() + "/gw-race"
	pool.Args = []string{"-race-sink"}
	pool.Env = []string{"GORACE=halt_on_error=0 log_path=" + raceDir + "/r"}
	pool.Recycle = 40
	nProg := c.pick(50, 500)
	reps := c.pick(4, 10)
	cases := genCases(c, nProg, 13, func(i int) *gen.Opt {
		// duplication heavy: shared ASTs between copies, between a spawned body and its parent
		o := gen.Opt{MaxSplit: 4, Pol: 2, Alias: 30, ExplicitSelf: 10, ExplicitProv: 10, Exec: 10, Print: 8, TopMax: 3, Fuel: 3, MultiProv: 40, Drop: 20, Split: 30, Mixed: i%5 == 0, MainMode: []vast.Mode{vast.Rep, vast.Mul, vast.Rep, vast.Lin}[i%4]}
		return &o
	})
	cases = append(cases, closedCorpus(newPool())...)
	c.Rule = "the worker is built with -race (and a synchronisation-free hook sink that only yields/sleeps from a per-thread PRNG, so the detector sees exactly the interpreter's own happens-before edges); duplication-heavy G1 programs and the closed corpus run in 3 modes x monitor on/off x {manual start with HeartbeatReceiver, InitializeProcesses}, each configuration repeated, followed by the calls a driver makes after completion (StopMonitor, ProcessCount, DeadProcessCount, TimeTaken); oracle: no 'WARNING: DATA RACE' block with a grits/ frame; reports are de-duplicated by the pair of innermost grits functions; non-trivial = distinct program that ran to the end under the detector"
	c.Assumptions = []string{"a race is only reported on interleavings that actually happened; absence is 'held on what was observed'", "reports whose both stacks lie in the harness would be harness bugs and stop the check with status 2"}
	var jobs []sup.Job
	for i, pc := range cases {
		for rep := 0; rep < reps; rep++ {
			for k, mode := range []string{"async", "sync", "np"} {
				j := jobFor(pc, runCfg{Mode: mode, Monitor: (rep+k)%2 == 0, Procs: []int{2, 4, 16}[(rep+k)%3], Profile: []string{"gosched", "sleep", "none"}[(rep+i)%3]}, uint64(rep), 0)
				j.WatchdogMs = 120
				if (rep+k)%4 == 3 && !j.Monitor {
					j.Entry = "init"
				}
				jobs = append(jobs, j)
			}
		}
	}
	// long programs: one process recursing hundreds of times, thousands of rule firings
	for _, k := range []int{7, 8} {
		pc := &progCase{ID: fmt.Sprintf("long%d", k), Text: longProgram(k), Source: "long"}
		for q, mode := range []string{"async", "sync", "np"} {
			j := jobFor(pc, runCfg{Mode: mode, Monitor: q%2 == 0, Procs: 4, Profile: "none"}, uint64(k), 0)
			j.WatchdogMs = 20000
			jobs = append(jobs, j)
		}
	}
	outs := pool.Run(jobs, nil)
	ran := 0
	for _, o := range outs {
		c.Evaluations++
		if o.Res == nil && !o.Died() {
			c.Inconc("watchdog")
			continue
		}
		if o.Res != nil && o.Res.Run != nil {
			ran++
			c.Nontrivial(o.Job.Tag)
		}
	}
	// collect the detector's logs
	files, _ := filepath.Glob(raceDir + "/r.*")
	var all strings.Builder
	for _, f := range files {
		b, _ := os.ReadFile(f)
		all.Write(b)
	}
	// deaths may carry reports on stderr too
	reports, harnessOnly := parseRaces(all.String())
	if harnessOnly > 0 {
		fmt.Fprintf(os.Stderr, "HARNESS BUG: %d race reports without any grits frame\n", harnessOnly)
		return 2
	}
	dedup := map[string][]raceReport{}
	for _, r := range reports {
		k := r.a + " <-> " + r.b
		dedup[k] = append(dedup[k], r)
	}
	var keys []string
	for k := range dedup {
		keys = append(keys, k)
	}
	sort.Strings(keys)
	for _, k := range keys {
		rs := dedup[k]
		c.Violation("data race between "+k, map[string]interface{}{"reports": len(rs), "outermost_frames": rs[0].outA + " | " + rs[0].outB, "first_report": rs[0].block})
	}
	c.Extra["runs_completed_under_the_race_detector"] = ran
	c.Extra["race_reports_before_deduplication"] = len(reports)
	c.Extra["distinct_function_pairs"] = len(dedup)
	c.Extra["repetitions_per_configuration"] = reps
	c.Sample(map[string]interface{}{"program": cases[0].Text, "configurations": "async/sync/np x monitor on/off x manual|InitializeProcesses", "repetitions": reps})
	return c.Finish()
}
