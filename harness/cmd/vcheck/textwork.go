package main

import (
	"math/rand"

	"verif/gen"
)

// soupTexts: n grammar-shaped random programs plus edited corpus files (texts that may or
// may not parse; the typecheck jobs skip those that do not).
func soupTexts(c *Check, n int) []string {
	r := rand.New(rand.NewSource(subSeed(c.Seed, 31337)))
	var out []string
	ct := corpusTexts()
	keys := sortedKeys(ct)
	for i := 0; i < n; i++ {
		switch i % 4 {
		case 0, 1, 2:
			out = append(out, gen.RandSyntax(r))
		default:
			t := ct[keys[r.Intn(len(keys))]]
			out = append(out, gen.EditText(r, t, 1+r.Intn(2)))
		}
	}
	return out
}
