package main

import (
	"fmt"
	"sync/atomic"
	"strconv"
	"strings"

	"grits/parser"
	"grits/process"
	"grits/types"
	"verif/sup"
)

func modeStr(m types.Modality) string {
	if m == nil {
		return "nil"
	}
	return m.String()
}

// dumpTy turns a Grits type value into a plain tree using exported fields only.
func dumpTy(t types.SessionType) *sup.TyNode {
	if t == nil {
		return nil
	}
	switch x := t.(type) {
	case *types.LabelType:
		return &sup.TyNode{K: "name", M: modeStr(x.Mode), Name: x.Label}
	case *types.UnitType:
		return &sup.TyNode{K: "unit", M: modeStr(x.Mode)}
	case *types.SendType:
		return &sup.TyNode{K: "send", M: modeStr(x.Mode), Kids: []*sup.TyNode{dumpTy(x.Left), dumpTy(x.Right)}}
	case *types.ReceiveType:
		return &sup.TyNode{K: "recv", M: modeStr(x.Mode), Kids: []*sup.TyNode{dumpTy(x.Left), dumpTy(x.Right)}}
	case *types.SelectLabelType:
		n := &sup.TyNode{K: "plus", M: modeStr(x.Mode)}
		for _, b := range x.Branches {
			n.Lbl = append(n.Lbl, b.Label)
			n.Kids = append(n.Kids, dumpTy(b.SessionType))
		}
		return n
	case *types.BranchCaseType:
		n := &sup.TyNode{K: "with", M: modeStr(x.Mode)}
		for _, b := range x.Branches {
			n.Lbl = append(n.Lbl, b.Label)
			n.Kids = append(n.Kids, dumpTy(b.SessionType))
		}
		return n
	case *types.UpType:
		return &sup.TyNode{K: "up", M: modeStr(x.To), From: modeStr(x.From), To: modeStr(x.To), Kids: []*sup.TyNode{dumpTy(x.Continuation)}}
	case *types.DownType:
		return &sup.TyNode{K: "down", M: modeStr(x.To), From: modeStr(x.From), To: modeStr(x.To), Kids: []*sup.TyNode{dumpTy(x.Continuation)}}
	}
	return &sup.TyNode{K: "?"}
}

func dumpDefs(res *sup.Result, procs []*process.Process, env *process.GlobalEnvironment) {
	if env.Types != nil {
		lenv := types.ProduceLabelledSessionTypeEnvironment(*env.Types)
		for _, d := range *env.Types {
			td := sup.TypeDump{Name: d.Name, Mode: modeStr(d.Modality), Body: d.SessionType.StringWithModality(), Tree: dumpTy(d.SessionType)}
			if res.TcOK {
				before := types.VerifStepCount(types.VhUnfold)
				u := types.Unfold(types.NewLabelType(d.Name, d.Modality), lenv)
				td.UnfoldSteps = types.VerifStepCount(types.VhUnfold) - before
				if n := dumpTy(u); n != nil {
					td.UnfoldKind = n.K
				} else {
					td.UnfoldKind = "nil"
				}
			}
			res.Defs = append(res.Defs, td)
		}
	}
	if env.FunctionDefinitions != nil {
		for _, f := range *env.FunctionDefinitions {
			if f.Type != nil {
				res.Sigs = append(res.Sigs, sup.TypeDump{Name: "fun:" + f.FunctionName + ":ret", Mode: modeStr(f.Type.Modality()), Body: f.Type.StringWithModality(), Tree: dumpTy(f.Type)})
			}
			for _, p := range f.Parameters {
				if p.Type != nil {
					res.Sigs = append(res.Sigs, sup.TypeDump{Name: "fun:" + f.FunctionName + ":" + p.Ident, Mode: modeStr(p.Type.Modality()), Body: p.Type.StringWithModality(), Tree: dumpTy(p.Type)})
				}
			}
			collectAnn(res, "fun:"+f.FunctionName, process.VerifDumpForm(f.Body))
		}
	}
	for _, p := range procs {
		if p.Type != nil && len(p.Providers) > 0 {
			res.Sigs = append(res.Sigs, sup.TypeDump{Name: "prc:" + p.Providers[0].Ident, Mode: modeStr(p.Type.Modality()), Body: p.Type.StringWithModality(), Tree: dumpTy(p.Type)})
		}
		if len(p.Providers) > 0 {
			collectAnn(res, "prc:"+p.Providers[0].Ident, process.VerifDumpForm(p.Body))
		}
	}
}

// collectAnn records the (mode-annotated) type string of every cut-bound name.
func collectAnn(res *sup.Result, where string, n *process.VerifNode) {
	if n == nil {
		return
	}
	if n.Kind == "new" && len(n.Names) > 0 && n.Names[0].Type != "" {
		res.Sigs = append(res.Sigs, sup.TypeDump{Name: where + ":cut:" + n.Names[0].Ident, Body: n.Names[0].Type})
	}
	for _, k := range n.Kids {
		collectAnn(res, where, k)
	}
}

// resolve finds "name" or "name#path" in the definitions.
func resolve(spec string, defs []types.SessionTypeDefinition) types.SessionType {
	name, path, _ := strings.Cut(spec, "#")
	var t types.SessionType
	var mode types.Modality
	for _, d := range defs {
		if d.Name == name {
			t, mode = d.SessionType, d.Modality
			break
		}
	}
	if t == nil {
		return nil
	}
	if path == "" && !strings.Contains(spec, "#") {
		// the name itself, as a reference
		return types.NewLabelType(name, mode)
	}
	for _, step := range strings.Split(path, ".") {
		if step == "" {
			continue
		}
		switch x := t.(type) {
		case *types.SendType:
			if step == "l" {
				t = x.Left
			} else {
				t = x.Right
			}
		case *types.ReceiveType:
			if step == "l" {
				t = x.Left
			} else {
				t = x.Right
			}
		case *types.SelectLabelType:
			i, err := strconv.Atoi(step)
			if err != nil || i >= len(x.Branches) {
				return nil
			}
			t = x.Branches[i].SessionType
		case *types.BranchCaseType:
			i, err := strconv.Atoi(step)
			if err != nil || i >= len(x.Branches) {
				return nil
			}
			t = x.Branches[i].SessionType
		case *types.UpType:
			t = x.Continuation
		case *types.DownType:
			t = x.Continuation
		default:
			return nil
		}
	}
	return t
}

func doEq(j *sup.Job, res *sup.Result) {
	procs, assumed, env := doParse(j, res)
	if !res.ParseOK {
		return
	}
	if !doTypecheck(j, res, procs, assumed, env) {
		return
	}
	lenv := types.ProduceLabelledSessionTypeEnvironment(*env.Types)
	types.VerifResetSteps()
	// a correct algorithm visits every pair of names at most once: a million steps per query
	// is far beyond that for any environment used here
	atomic.StoreInt64(&types.VerifBudget, 1000000*int64(len(j.Queries)+1))
	defer atomic.StoreInt64(&types.VerifBudget, 0)
	for _, q := range j.Queries {
		a, b := resolve(q.A, *env.Types), resolve(q.B, *env.Types)
		if a == nil || b == nil {
			res.Eq = append(res.Eq, -1)
			continue
		}
		if types.EqualType(a, b, lenv) {
			res.Eq = append(res.Eq, 1)
		} else {
			res.Eq = append(res.Eq, 0)
		}
	}
	res.TypeSteps = nil
	for k := 1; k <= 4; k++ {
		res.TypeSteps = append(res.TypeSteps, types.VerifStepCount(k))
	}
}

// doRoundTrip: for every definition D of the text (after typechecking, so that modes are
// set), print its body with Grits' String(), parse "type rtN = <mode> <printed>" next to
// the original definitions and hand both trees back.
func doRoundTrip(j *sup.Job, res *sup.Result) {
	procs, assumed, env := doParse(j, res)
	if !res.ParseOK {
		return
	}
	if !doTypecheck(j, res, procs, assumed, env) {
		return
	}
	var extra strings.Builder
	type item struct {
		name, printed string
		orig          types.SessionType
	}
	var items []item
	for i, d := range *env.Types {
		printed := d.SessionType.String()
		head := d.SessionType.Modality().String() + " "
		switch d.SessionType.(type) {
		case *types.UpType, *types.DownType:
			head = ""
		}
		rt := fmt.Sprintf("rtq%d", i)
		fmt.Fprintf(&extra, "type %s = %s%s\n", rt, head, printed)
		items = append(items, item{rt, printed, d.SessionType})
	}
	_, _, env2, err := parser.ParseString(j.Text + "\n" + extra.String())
	if err != nil {
		// fall back: one by one, to find which printed form does not parse
		for _, it := range items {
			one := fmt.Sprintf("type %s = %s%s\n", it.name, headOf(it.orig), it.printed)
			_, _, e1, err1 := parser.ParseString(j.Text + "\n" + one)
			r := sup.RTResult{Name: it.name, Printed: it.printed}
			if err1 != nil {
				r.Err = err1.Error()
			} else {
				r.OK = true
				fillRT(&r, it.orig, lookupDef(e1, it.name))
			}
			res.RoundTrip = append(res.RoundTrip, r)
		}
		return
	}
	for _, it := range items {
		r := sup.RTResult{Name: it.name, Printed: it.printed, OK: true}
		fillRT(&r, it.orig, lookupDef(env2, it.name))
		res.RoundTrip = append(res.RoundTrip, r)
	}
}

func headOf(t types.SessionType) string {
	switch t.(type) {
	case *types.UpType, *types.DownType:
		return ""
	}
	return t.Modality().String() + " "
}

func lookupDef(env *process.GlobalEnvironment, name string) types.SessionType {
	for _, d := range *env.Types {
		if d.Name == name {
			return d.SessionType
		}
	}
	return nil
}

func fillRT(r *sup.RTResult, a, b types.SessionType) {
	where, left := diffTy(dumpTy(a), dumpTy(b), "")
	r.Same = where == ""
	r.Where = where
	r.LeftOp = left
}

// diffTy compares two dumps; modes of references are compared too. It returns the path of
// the first difference and whether that node (in a) has a binary/shift left operand.
func diffTy(a, b *sup.TyNode, path string) (string, bool) {
	if a == nil || b == nil {
		if a == b {
			return "", false
		}
		return path + "<nil>", false
	}
	leftOp := func(n *sup.TyNode) bool {
		if (n.K == "send" || n.K == "recv") && len(n.Kids) > 0 {
			switch n.Kids[0].K {
			case "send", "recv", "up", "down":
				return true
			}
		}
		return false
	}
	if a.K != b.K || a.M != b.M || a.From != b.From || a.To != b.To || a.Name != b.Name || len(a.Kids) != len(b.Kids) || strings.Join(a.Lbl, ",") != strings.Join(b.Lbl, ",") {
		return path + "@" + a.K + "/" + b.K, leftOp(a)
	}
	for i := range a.Kids {
		if w, l := diffTy(a.Kids[i], b.Kids[i], path+"."+strconv.Itoa(i)); w != "" {
			if strings.Count(w, ".") == strings.Count(path, ".")+1 && leftOp(a) {
				return w, true
			}
			return w, l
		}
	}
	return "", false
}

// doTermRT: print every function body with Form.String() and parse it back as the body of
// a fresh untyped function; both structural dumps go back to the supervisor.
func doTermRT(j *sup.Job, res *sup.Result) {
	_, _, env := doParse(j, res)
	if !res.ParseOK {
		return
	}
	for _, f := range *env.FunctionDefinitions {
		printed := f.Body.String()
		r := sup.RTResult{Name: f.FunctionName, Printed: printed}
		_, _, env2, err := parser.ParseString("let rtf() = " + printed + "\n")
		if err != nil {
			r.Err = err.Error()
			res.RoundTrip = append(res.RoundTrip, r)
			continue
		}
		r.OK = true
		var back process.Form
		for _, g := range *env2.FunctionDefinitions {
			if g.FunctionName == "rtf" {
				back = g.Body
			}
		}
		r.Where = diffForm(process.VerifDumpForm(f.Body), process.VerifDumpForm(back), "")
		r.Same = r.Where == ""
		res.RoundTrip = append(res.RoundTrip, r)
	}
}

func diffForm(a, b *process.VerifNode, path string) string {
	if a == nil || b == nil {
		if a == b {
			return ""
		}
		return path + "<nil>"
	}
	if a.Kind != b.Kind {
		return path + "@kind:" + a.Kind + "/" + b.Kind
	}
	if a.Label != b.Label || a.Fn != b.Fn {
		return path + "@label"
	}
	if len(a.Names) != len(b.Names) {
		return path + "@arity"
	}
	for i := range a.Names {
		x, y := a.Names[i], b.Names[i]
		if x.Ident != y.Ident || x.IsSelf != y.IsSelf {
			return fmt.Sprintf("%s@name%d:%s/%s", path, i, x.Ident, y.Ident)
		}
		if x.Pol != y.Pol {
			return fmt.Sprintf("%s@polarity%d", path, i)
		}
	}
	if len(a.Kids) != len(b.Kids) {
		return path + "@kids"
	}
	for i := range a.Kids {
		if w := diffForm(a.Kids[i], b.Kids[i], path+"."+strconv.Itoa(i)); w != "" {
			return w
		}
	}
	return ""
}
