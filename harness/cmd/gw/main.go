// gw is the worker process: it executes jobs against the real Grits packages (built from
// /repo's working tree with the verif tag) and reports what the monitors observed. The
// supervisor never runs Grits code itself; a worker that dies is a datum.
//
// Protocol: one JSON Job per line on stdin; on fd 3 "START <id>\n" before touching Grits
// and "RESULT <json>\n" afterwards. Stdout belongs to the program under test.
package main

import (
	"bufio"
	"bytes"
	"encoding/json"
	"fmt"
	"io"
	"math/rand"
	"os"
	"reflect"
	"runtime"
	"runtime/debug"
	"slices"
	"sort"
	"strings"
	"sync"
	"sync/atomic"
	"time"

	"grits/parser"
	"grits/process"
	"grits/types"
	"verif/sup"
)

var out *os.File
var theSink *sink
var realStdout *os.File
var raceMode bool
var sharedRe *process.RuntimeEnvironment

func main() {
	debug.SetMaxStack(64 << 20)
	out = os.NewFile(3, "results")
	if out == nil {
		fmt.Fprintln(os.Stderr, "gw: fd 3 missing")
		os.Exit(2)
	}
	for _, a := range os.Args[1:] {
		if a == "-race-sink" {
			raceMode = true
		}
	}
	realStdout = os.Stdout
	theSink = newSink()
	if !raceMode {
		process.VerifSink = theSink
	} else {
		// installed once, before any process exists: stragglers of earlier jobs keep reading it
		process.VerifSink = &raceSink{profile: []string{"gosched", "sleep", "none"}[os.Getpid()%3]}
	}
	process.VerifTcSink = tcs
	if !raceMode {
		process.VerifBeatSink = beat
	}
	in := bufio.NewReaderSize(os.Stdin, 1<<20)
	for {
		line, err := in.ReadBytes('\n')
		if len(line) > 0 {
			var j sup.Job
			if e := json.Unmarshal(line, &j); e != nil {
				fmt.Fprintf(out, "RESULT %s\n", mustJSON(sup.Result{ID: -1, Err: "bad job: " + e.Error()}))
			} else {
				fmt.Fprintf(out, "START %d\n", j.ID)
				r := runJob(&j)
				fmt.Fprintf(out, "RESULT %s\n", mustJSON(r))
			}
		}
		if err != nil {
			return
		}
	}
}

func mustJSON(v interface{}) string {
	b, err := json.Marshal(v)
	if err != nil {
		return fmt.Sprintf(`{"id":-1,"err":%q}`, err.Error())
	}
	return string(b)
}

// ---- typechecker sink ----

type tcSink struct {
	cur   atomic.Pointer[process.GlobalEnvironment]
	steps atomic.Int64
	ended atomic.Bool
	begun atomic.Bool
	done  atomic.Bool
	other atomic.Int64 // steps attributed to an environment that is not the current one
}

var tcs = &tcSink{}

func (t *tcSink) TcBegin(env *process.GlobalEnvironment) {
	if t.cur.Load() == env {
		t.begun.Store(true)
	}
}
func (t *tcSink) TcStep(env *process.GlobalEnvironment) {
	if t.cur.Load() == env {
		t.steps.Add(1)
	} else {
		t.other.Add(1)
	}
}
func (t *tcSink) TcDone(env *process.GlobalEnvironment) {
	if t.cur.Load() == env {
		t.done.Store(true)
	}
}
func (t *tcSink) TcEnd(env *process.GlobalEnvironment) {
	if t.cur.Load() == env {
		t.ended.Store(true)
	}
}

// ---- jobs ----

func runJob(j *sup.Job) (res sup.Result) {
	res.ID, res.Kind, res.Tag = j.ID, j.Kind, j.Tag
	if j.Procs > 0 {
		runtime.GOMAXPROCS(j.Procs)
	}
	switch j.Kind {
	case "seq":
		for i := range j.Seq {
			sj := j.Seq[i]
			res.Seq = append(res.Seq, runJob(&sj))
		}
	case "modes":
		res.Modes = modeTable(j.Seed)
	case "parse":
		doParse(j, &res)
	case "typecheck", "defs":
		procs, assumed, env := doParse(j, &res)
		if res.ParseOK {
			doTypecheck(j, &res, procs, assumed, env)
			if j.Kind == "defs" {
				dumpDefs(&res, procs, env)
			}
		}
	case "eq":
		doEq(j, &res)
	case "roundtrip":
		doRoundTrip(j, &res)
	case "termrt":
		doTermRT(j, &res)
	case "run":
		doRun(j, &res)
	default:
		res.Err = "unknown kind " + j.Kind
	}
	theSink.mu.Lock()
	res.StragglerEvents = theSink.stragglerEvents
	res.StragglerPrints = append([]string(nil), theSink.stragglerPrints...)
	theSink.stragglerEvents = 0
	theSink.stragglerPrints = nil
	theSink.mu.Unlock()
	res.Goroutines = runtime.NumGoroutine()
	return res
}

func doParse(j *sup.Job, res *sup.Result) ([]*process.Process, []process.Name, *process.GlobalEnvironment) {
	atomic.StoreInt64(&parser.VerifScanSteps, 0)
	budget := j.ScanBudget
	if budget == 0 {
		budget = int64(len(j.Text))*8 + 4096
	}
	atomic.StoreInt64(&parser.VerifScanBudget, budget)
	// parsing runs mode inference over the definitions: give it a (generous, polynomial)
	// logical step budget so that an explosion is an event and not a hang
	types.VerifResetSteps()
	tb := j.TypeBudget
	if tb == 0 {
		n := int64(len(j.Text))
		tb = 1000000 + 10*n*n
	}
	atomic.StoreInt64(&types.VerifBudget, tb)
	defer atomic.StoreInt64(&types.VerifBudget, 0)
	var m0, m1 runtime.MemStats
	measure := j.Kind == "parse"
	if measure {
		runtime.ReadMemStats(&m0)
	}
	procs, assumed, env, err := parser.ParseString(j.Text)
	if measure {
		runtime.ReadMemStats(&m1)
		res.AllocBytes = m1.TotalAlloc - m0.TotalAlloc
	}
	res.ScanSteps = atomic.LoadInt64(&parser.VerifScanSteps)
	atomic.StoreInt64(&parser.VerifScanBudget, 0)
	if err != nil {
		res.ParseErr = err.Error()
		return nil, nil, nil
	}
	res.ParseOK = true
	c := &sup.Counts{Procs: len(procs), Assumed: len(assumed)}
	for _, p := range procs {
		var ns []string
		for _, n := range p.Providers {
			ns = append(ns, n.Ident)
		}
		c.ProcNames = append(c.ProcNames, ns)
	}
	if env != nil {
		if env.FunctionDefinitions != nil {
			c.Funcs = len(*env.FunctionDefinitions)
			for _, f := range *env.FunctionDefinitions {
				c.FuncNames = append(c.FuncNames, f.FunctionName)
				c.FuncArity = append(c.FuncArity, len(f.Parameters))
				var ps []string
				for _, p := range f.Parameters {
					ps = append(ps, p.Ident)
				}
				c.FuncParams = append(c.FuncParams, ps)
			}
		}
		if env.Types != nil {
			c.Types = len(*env.Types)
			for _, t := range *env.Types {
				c.TypeNames = append(c.TypeNames, t.Name)
			}
		}
	}
	var bag []string
	var walk func(n *process.VerifNode)
	walk = func(n *process.VerifNode) {
		if n == nil {
			return
		}
		for _, x := range n.Names {
			if x.IsSelf || x.Ident == "" {
				continue
			}
			pol := ""
			if x.Pol != 0 {
				pol = map[bool]string{true: "+", false: "-"}[x.Pol == int(types.POSITIVE)]
			}
			bag = append(bag, pol+x.Ident)
		}
		if n.Label != "" {
			bag = append(bag, "label:"+n.Label)
		}
		if n.Fn != "" {
			bag = append(bag, "fn:"+n.Fn)
		}
		for _, k := range n.Kids {
			walk(k)
		}
	}
	for _, p := range procs {
		walk(process.VerifDumpForm(p.Body))
	}
	if env != nil && env.FunctionDefinitions != nil {
		for _, f := range *env.FunctionDefinitions {
			walk(process.VerifDumpForm(f.Body))
		}
	}
	sort.Strings(bag)
	c.Idents = bag
	res.Counts = c
	return procs, assumed, env
}

func doTypecheck(j *sup.Job, res *sup.Result, procs []*process.Process, assumed []process.Name, env *process.GlobalEnvironment) bool {
	env.LogLevels = []process.LogLevel{}
	types.VerifResetSteps()
	atomic.StoreInt64(&types.VerifBudget, j.TypeBudget)
	tcs.steps.Store(0)
	tcs.ended.Store(false)
	tcs.begun.Store(false)
	tcs.done.Store(false)
	tcs.cur.Store(env)
	res.TcRan = true
	if j.AllocBudget > 0 {
		// a blow-up outside the hooked type algorithms (no logical step count) is decided by
		// the bytes it allocates, sampled next to the call
		var m0 runtime.MemStats
		runtime.ReadMemStats(&m0)
		stop := make(chan struct{})
		defer close(stop)
		go func() {
			tk := time.NewTicker(25 * time.Millisecond)
			defer tk.Stop()
			for {
				select {
				case <-stop:
					return
				case <-tk.C:
					var m runtime.MemStats
					runtime.ReadMemStats(&m)
					if m.TotalAlloc-m0.TotalAlloc > j.AllocBudget {
						fmt.Fprintf(os.Stderr, "verif: typecheck allocation budget exceeded (%d bytes allocated, budget %d)\n", m.TotalAlloc-m0.TotalAlloc, j.AllocBudget)
						os.Exit(3)
					}
				}
			}
		}()
	}
	err := process.Typecheck(procs, assumed, env)
	at := tcs.steps.Load()
	res.TcSteps = at
	// watch the checker goroutine: it must reach its end without doing further work
	settle := j.SettleMs
	if settle <= 0 {
		settle = 300
	}
	deadline := time.Now().Add(time.Duration(settle) * time.Millisecond)
	for !tcs.ended.Load() && time.Now().Before(deadline) {
		time.Sleep(100 * time.Microsecond)
		if tcs.steps.Load() > at+1000 {
			break
		}
	}
	res.TcEnded = tcs.ended.Load()
	res.TcCompleted = tcs.done.Load()
	res.TcStepsAfter = tcs.steps.Load() - at
	if err == nil && !res.TcCompleted {
		// success was reported although the worker did not run to its end: it is panicking.
		// Hold the result back so that the death is attributed to this job.
		time.Sleep(200 * time.Millisecond)
	}
	tcs.cur.Store(nil)
	atomic.StoreInt64(&types.VerifBudget, 0)
	for k := 1; k <= 4; k++ {
		res.TypeSteps = append(res.TypeSteps, types.VerifStepCount(k))
	}
	if err != nil {
		res.TcErr = err.Error()
		return false
	}
	res.TcOK = true
	return true
}

// ---- run ----

type stdoutCapture struct {
	r, w *os.File
	buf  bytes.Buffer
	done chan struct{}
}

func captureStdout() *stdoutCapture {
	r, w, err := os.Pipe()
	if err != nil {
		return nil
	}
	c := &stdoutCapture{r: r, w: w, done: make(chan struct{})}
	os.Stdout = w
	go func() {
		io.Copy(&c.buf, r)
		close(c.done)
	}()
	return c
}

func (c *stdoutCapture) finish() string {
	os.Stdout = realStdout
	c.w.Close()
	<-c.done
	c.r.Close()
	return c.buf.String()
}

func doRun(j *sup.Job, res *sup.Result) {
	procs, assumed, env := doParse(j, res)
	if !res.ParseOK {
		return
	}
	if !j.NoTypecheck {
		if !doTypecheck(j, res, procs, assumed, env) {
			return
		}
	}
	env.LogLevels = []process.LogLevel{}
	rr := &sup.RunResult{Mode: j.Mode, MonPrints: -1}
	res.Run = rr

	var re *process.RuntimeEnvironment
	var cancel func()
	if j.Entry == "init" && j.ReuseEnv {
		// a host that keeps one environment and runs program after program on it
		if sharedRe == nil {
			sharedRe = &process.RuntimeEnvironment{Color: false}
		}
		re = sharedRe
		re.GlobalEnvironment, re.UseMonitor, re.Typechecked = env, j.Monitor, !j.NoTypecheck
	} else if j.Entry == "init" {
		re = &process.RuntimeEnvironment{GlobalEnvironment: env, UseMonitor: j.Monitor, Color: false, Typechecked: !j.NoTypecheck}
	} else {
		re, _, cancel = process.NewRuntimeEnvironment()
		re.GlobalEnvironment = env
		re.Typechecked = !j.NoTypecheck
		re.Color = false
		re.UseMonitor = j.Monitor
	}
	switch j.Mode {
	case "async":
		re.ExecutionVersion = process.NORMAL_ASYNC
	case "sync":
		re.ExecutionVersion = process.NORMAL_SYNC
	case "np":
		re.ExecutionVersion = process.NON_POLARIZED_SYNC
	default:
		res.Err = "bad mode"
		return
	}

	if raceMode {
		runRace(j, res, rr, re, cancel, procs)
		return
	}

	rs := theSink.begin(re, j.Seed, j.Profile, j.EventBudget)
	cap := captureStdout()
	t0 := time.Now()
	top := map[chan process.Message]bool{}
	unsettled := false // nobody was running at the cancel, yet a communication was enabled

	if j.Entry == "init" {
		// the real entry point with its 50 ms heartbeat
		takeBeat(re) // a reused environment starts afresh
		process.InitializeProcesses(procs, nil, nil, re)
		if e, t, n, ok := takeBeat(re); ok {
			rr.TimerExpired, rr.ExpirySilenceUs, rr.TimeoutUs, rr.Beats = true, e, t, n
		}
		rr.Quiescent = true
		rr.Live = convLive(theSink.snapshot(rs, top))
		for _, l := range rr.Live {
			if l.State == "running" {
				rr.Premature = true
			}
		}
		// cancelled although a communication was still enabled (a message in a buffer whose
		// receiver is parked, a sender and a receiver parked on one channel, an unserved control
		// message): the receiving goroutine had not been scheduled for 50 ms
		if ok, _ := theSink.stable(rs); !ok && !rr.Premature {
			rr.Premature = true
			unsettled = true
		}
	} else {
		chans := re.CreateChannelForEachProcess(procs)
		for _, p := range procs {
			for _, n := range p.Providers {
				top[n.Channel] = true
			}
		}
		re.SubstituteNameInitialization(procs, chans)
		if j.Monitor {
			wg := new(sync.WaitGroup)
			wg.Add(1)
			re.InitializeGivenMonitor(wg, process.NewMonitor(re, nil), nil)
			wg.Wait()
		}
		go re.HeartbeatReceiver(time.Hour, cancel)
		// started from a goroutine of its own: if starting the processes itself gets stuck in
		// interpreter code, the run is judged (by the goroutine dump) instead of hanging the worker
		var started atomic.Bool
		go func() {
			re.StartTransitions(procs)
			started.Store(true)
		}()

		wd := time.Duration(j.WatchdogMs) * time.Millisecond
		if wd <= 0 {
			wd = 20 * time.Second
		}
		var lastEv uint64
		lastEvAt, lastDump := time.Now(), time.Now()
		for {
			// the table is scanned under the hooks' lock: with thousands of live processes the
			// scan is spaced out so that it does not starve them
			theSink.mu.Lock()
			nLive := len(rs.tab)
			theSink.mu.Unlock()
			time.Sleep(200*time.Microsecond + time.Duration(nLive)*4*time.Microsecond)
			ok, ev := theSink.stable(rs)
			if ok && started.Load() {
				time.Sleep(2 * time.Millisecond)
				ok2, ev2 := theSink.stable(rs)
				if ok2 && ev2 == ev {
					rr.Quiescent = true
					break
				}
			}
			theSink.mu.Lock()
			over := rs.overrun
			evNow := rs.events
			theSink.mu.Unlock()
			if over {
				rr.Overrun = true
				break
			}
			// second opinion, independent of the hooks: when the hook table has shown no event for
			// a second, look at the goroutines themselves; if every goroutine of the interpreter is
			// parked in a channel operation (twice, 30 ms apart, with no event in between) the
			// run is over even though the table still lists somebody as running (a blocking
			// operation the hooks do not know about)
			if evNow != lastEv {
				lastEv, lastEvAt = evNow, time.Now()
			} else if time.Since(lastEvAt) > time.Second && time.Since(lastDump) > 250*time.Millisecond {
				lastDump = time.Now()
				if ok, polling := allParked(); ok && (!polling || time.Since(lastEvAt) > 3*time.Second) {
					time.Sleep(30 * time.Millisecond)
					theSink.mu.Lock()
					same := rs.events == evNow
					theSink.mu.Unlock()
					if ok2, _ := allParked(); same && ok2 {
						rr.Quiescent = true
						rr.ParkedOutsideHooks = true
						break
					}
				}
			}
			if time.Since(t0) > wd {
				rr.Watchdog = true
				break
			}
		}
		rr.Live = convLive(theSink.snapshot(rs, top))
		cancel()
		if j.Monitor {
			_, log := re.StopMonitor()
			n := 0
			for _, l := range log {
				if l.Rule == process.PRINT {
					n++
				}
			}
			rr.MonPrints = n
		}
	}
	rr.ElapsedUs = time.Since(t0).Microseconds()
	// give output that is already on its way a moment to land in the pipe
	text := cap.finish()
	theSink.end()
	for _, line := range strings.Split(text, "\n") {
		if strings.HasPrefix(line, "> ") {
			rr.Stdout = append(rr.Stdout, strings.TrimPrefix(line, "> "))
		} else if strings.TrimSpace(line) != "" {
			rr.StdoutOther++
		}
	}
	theSink.mu.Lock()
	rr.HookPrints = append([]string(nil), rs.prints...)
	rr.PrintBy = append([]int(nil), rs.printBy...)
	rr.Events = rs.events
	rr.Spawned = rs.serial
	rr.MaxLive = rs.maxLive
	rr.ZeroMsg = rs.zeroMsg
	rr.Fingerprint = rs.fp
	rr.Rules = rs.rules
	rr.Kinds = rs.kinds
	if g := time.Since(rs.lastStep); g > rs.maxGap && (rr.Premature == false || unsettled) {
		rs.maxGap = g
	}
	rr.MaxStepGapUs = rs.maxGap.Microseconds()
	rr.Dups = rs.dups
	rr.DupSameIdent = rs.dupSameIdent
	theSink.mu.Unlock()
	rr.ProcCount = re.ProcessCount()
	rr.DeadCount = re.DeadProcessCount()
}

func convLive(in []LiveEntry) []sup.LiveEntry {
	out := make([]sup.LiveEntry, len(in))
	for i, l := range in {
		out[i] = sup.LiveEntry(l)
	}
	return out
}

// runRace: no monitor state; quiescence from the real heartbeat with a long timeout,
// followed by the API calls a driver makes after completion.
func runRace(j *sup.Job, res *sup.Result, rr *sup.RunResult, re *process.RuntimeEnvironment, cancel func(), procs []*process.Process) {
	// stdout is not redirected in race runs: swapping os.Stdout would itself race with printing stragglers
	t0 := time.Now()
	if j.Entry == "init" {
		process.InitializeProcesses(procs, nil, nil, re)
	} else {
		chans := re.CreateChannelForEachProcess(procs)
		re.SubstituteNameInitialization(procs, chans)
		if j.Monitor {
			wg := new(sync.WaitGroup)
			wg.Add(1)
			re.InitializeGivenMonitor(wg, process.NewMonitor(re, nil), nil)
			wg.Wait()
		}
		hb := time.Duration(j.WatchdogMs) * time.Millisecond
		if hb <= 0 {
			hb = 300 * time.Millisecond
		}
		go re.HeartbeatReceiver(hb, cancel)
		re.StartTransitions(procs)
		<-re.Ctx().Done()
		if j.Monitor {
			_, log := re.StopMonitor()
			rr.MonPrints = len(log)
		}
	}
	rr.ProcCount = re.ProcessCount()
	rr.DeadCount = re.DeadProcessCount()
	_ = re.TimeTaken()
	rr.Quiescent = true
	rr.ElapsedUs = time.Since(t0).Microseconds()
}

// ---- modes ----

func modeTable(seed uint64) *sup.ModeTable {
	ms := []types.Modality{types.NewReplicableMode(), types.NewMulticastMode(), types.NewAffineMode(), types.NewLinearMode()}
	t := &sup.ModeTable{Spell: map[string]string{}, SpellAll: map[string][]string{}, TablesStable: true}
	// the questions of one table are asked in a seeded order (pairs and, within a pair, the
	// three relations): an answer that depends on which question came first shows either as a
	// table that differs from an earlier one or as a table that differs from another job's
	qr := rand.New(rand.NewSource(int64(seed) ^ 0x5eed))
	tables := func() (names []string, weaken, contract []bool, down, up, eq [][]bool) {
		n := len(ms)
		for _, m := range ms {
			names = append(names, m.String())
			weaken = append(weaken, m.AllowsWeakening())
			contract = append(contract, m.AllowsContraction())
			down = append(down, make([]bool, n))
			up = append(up, make([]bool, n))
			eq = append(eq, make([]bool, n))
		}
		for _, q := range qr.Perm(n * n * 3) {
			i, k, rel := q/3/n, q/3%n, q%3
			switch rel {
			case 0:
				down[i][k] = ms[i].CanBeDownshiftedTo(ms[k])
			case 1:
				up[i][k] = ms[i].CanBeUpshiftedTo(ms[k])
			default:
				eq[i][k] = ms[i].Equals(ms[k])
			}
		}
		return
	}
	t.Names, t.Weaken, t.Contract, t.Down, t.UpT, t.Equals = tables()
	spellings := []string{"r", "rep", "replicable", "m", "mul", "multicast", "a", "aff", "affine", "l", "lin", "linear",
		"R", "Rep", "LIN", "Linear", "Affine", "AFF", "Mul", "Multicast", "Replicable", "A", "L", "M", "x", "", "unset", "shared", "linn", "affin", "li", "re"}
	// the same questions in many seeded orders (any state carried from one call to the next
	// shows as a second answer for one spelling), with programs parsed in between
	r := rand.New(rand.NewSource(int64(seed)))
	t.Rounds = 12
	for round := 0; round < t.Rounds; round++ {
		order := r.Perm(len(spellings))
		for _, i := range order {
			s := spellings[i]
			a := types.StringToMode(s).String()
			if round == 0 {
				t.Spell[s] = a
			}
			if !slices.Contains(t.SpellAll[s], a) {
				t.SpellAll[s] = append(t.SpellAll[s], a)
			}
		}
		if round%3 == 1 {
			parser.ParseString("type A = Affine 1\ntype B = LINEAR 1 * B\nprc[a] : Rep 1 = close self\n")
		}
		n, w, c, d, u, e := tables()
		if !reflect.DeepEqual([]interface{}{n, w, c, d, u, e}, []interface{}{t.Names, t.Weaken, t.Contract, t.Down, t.UpT, t.Equals}) {
			t.TablesStable = false
		}
	}
	t.Spell["<fullstrings>"] = strings.Join([]string{ms[0].FullString(), ms[1].FullString(), ms[2].FullString(), ms[3].FullString()}, ",")
	t.Spell["<default>"] = types.DefaultMode().String()
	return t
}

// ---- heartbeat receiver, observed from inside its own goroutine ----

type beatState struct {
	mu       sync.Mutex
	last     map[*process.RuntimeEnvironment]time.Time
	expiryUs map[*process.RuntimeEnvironment]int64 // silence the receiver itself saw before its timer fired
	timeout  map[*process.RuntimeEnvironment]int64
	beats    map[*process.RuntimeEnvironment]int64
}

var beats = &beatState{last: map[*process.RuntimeEnvironment]time.Time{}, expiryUs: map[*process.RuntimeEnvironment]int64{}, timeout: map[*process.RuntimeEnvironment]int64{}, beats: map[*process.RuntimeEnvironment]int64{}}

func beat(re *process.RuntimeEnvironment, expired bool, timeout time.Duration) {
	now := time.Now()
	beats.mu.Lock()
	defer beats.mu.Unlock()
	if !expired {
		beats.last[re] = now
		beats.beats[re]++
		return
	}
	if t, ok := beats.last[re]; ok {
		beats.expiryUs[re] = now.Sub(t).Microseconds()
	} else {
		beats.expiryUs[re] = -1 // no heartbeat was ever received
	}
	beats.timeout[re] = timeout.Microseconds()
}

// takeBeat returns and forgets what was recorded for re.
func takeBeat(re *process.RuntimeEnvironment) (expiryUs, timeoutUs, n int64, expired bool) {
	beats.mu.Lock()
	defer beats.mu.Unlock()
	expiryUs, expired = beats.expiryUs[re]
	timeoutUs, n = beats.timeout[re], beats.beats[re]
	delete(beats.last, re)
	delete(beats.expiryUs, re)
	delete(beats.timeout, re)
	delete(beats.beats, re)
	return
}

// allParked reports whether every goroutine that is executing interpreter code
// (grits/process frames, the heartbeat receiver and the monitor excepted) is parked in a
// channel send, a channel receive or a select, or asleep in interpreter code (not in the
// harness' own perturbation sleeps): polling is true if some goroutine is asleep like that
// (a wait loop that fires no rule). It reads the runtime's own goroutine dump.
func allParked() (parked, polling bool) {
	buf := make([]byte, 1<<20)
	for {
		n := runtime.Stack(buf, true)
		if n < len(buf) {
			buf = buf[:n]
			break
		}
		buf = make([]byte, 2*len(buf))
	}
	seen := false
	for _, g := range strings.Split(string(buf), "\n\n") {
		if !strings.Contains(g, "grits/process.") || strings.Contains(g, "main.allParked") {
			continue // (the heartbeat receiver and an idle monitor are parked in a select themselves)
		}
		seen = true
		head := g
		if i := strings.IndexByte(g, '\n'); i >= 0 {
			head = g[:i]
		}
		switch {
		case strings.Contains(head, "[chan send"), strings.Contains(head, "[chan receive"), strings.Contains(head, "[select"):
		case strings.Contains(head, "[sleep") && !strings.Contains(g, "main.(*sink)") && !strings.Contains(g, "main.(*raceSink)"):
			polling = true
		default:
			return false, false
		}
	}
	return seen, polling
}
