package main

import (
	"fmt"
	"math/rand/v2"
	"runtime"
	"sort"
	"strings"
	"sync"
	"time"

	"grits/process"
)

// entry is the monitor's view of one process goroutine.
type entry struct {
	running bool
	kind    int
	ch      chan process.Message
	cch     chan process.ControlMessage
	cch2    chan process.ControlMessage
	serial  int
	steps   int
}

// sink is the full (mutex protected) monitor used by all non-race runs. It keeps one
// table per RuntimeEnvironment so that stragglers of earlier runs in the same worker
// are attributed to their own run.
type sink struct {
	mu   sync.Mutex
	runs map[*process.RuntimeEnvironment]*runState
	cur  *runState // the run the current job is executing (nil between jobs)
	// activity attributed to a run that is no longer current
	stragglerEvents int
	stragglerPrints []string
}

type runState struct {
	re       *process.RuntimeEnvironment
	tab      map[*process.Process]*entry
	events   uint64
	serial   int
	prints   []string
	printBy  []int // spawn serial of the printing process, parallel to prints
	zeroMsg  int
	closedRx int
	pend     map[chan process.Message]int
	cpend    map[chan process.ControlMessage]int
	fp       uint64
	seed     uint64
	profile  string
	budget   uint64
	overrun  bool
	maxLive  int
	rules    map[string]int
	kinds    map[string]int
	// coverage: duplications of a process that holds two different channels with one identifier
	dupSameIdent int
	dups         int
	// longest silence between two consecutive step events (and since the start of the run)
	lastStep time.Time
	maxGap   time.Duration
}

func newSink() *sink {
	return &sink{runs: map[*process.RuntimeEnvironment]*runState{}}
}

func (s *sink) begin(re *process.RuntimeEnvironment, seed uint64, profile string, budget uint64) *runState {
	rs := &runState{lastStep: time.Now(), re: re, tab: map[*process.Process]*entry{}, pend: map[chan process.Message]int{}, cpend: map[chan process.ControlMessage]int{}, seed: seed, profile: profile, budget: budget, fp: 1469598103934665603, rules: map[string]int{}, kinds: map[string]int{}}
	s.mu.Lock()
	s.runs[re] = rs
	s.cur = rs
	s.mu.Unlock()
	return rs
}

func (s *sink) end() {
	s.mu.Lock()
	s.cur = nil
	s.mu.Unlock()
}

// get returns the run state for re (nil for an unknown environment); must hold mu.
func (s *sink) get(re *process.RuntimeEnvironment) *runState {
	rs := s.runs[re]
	if rs != nil && rs != s.cur {
		s.stragglerEvents++
	}
	return rs
}

func (rs *runState) ev(serial int, kind uint64) {
	rs.events++
	rs.fp = (rs.fp ^ (uint64(serial)<<8 | kind)) * 1099511628211
}

func (s *sink) Spawn(re *process.RuntimeEnvironment, p *process.Process) {
	s.mu.Lock()
	if rs := s.get(re); rs != nil {
		rs.serial++
		rs.tab[p] = &entry{running: true, serial: rs.serial}
		rs.ev(rs.serial, 1)
		if len(rs.tab) > rs.maxLive {
			rs.maxLive = len(rs.tab)
		}
	}
	s.mu.Unlock()
}

func mix(a, b, c uint64) uint64 {
	x := a*0x9E3779B97F4A7C15 ^ b*0xBF58476D1CE4E5B9 ^ c*0x94D049BB133111EB
	x ^= x >> 31
	x *= 0xD6E8FEB86659FD93
	x ^= x >> 29
	return x
}

func (s *sink) Step(re *process.RuntimeEnvironment, p *process.Process) {
	var act, dur int
	s.mu.Lock()
	rs := s.get(re)
	if rs != nil {
		e := rs.tab[p]
		if e == nil {
			// a process that was not announced by Spawn (cannot happen with the hook set)
			rs.serial++
			e = &entry{serial: rs.serial}
			rs.tab[p] = e
		}
		e.running = true
		e.steps++
		now := time.Now()
		if !rs.lastStep.IsZero() {
			if g := now.Sub(rs.lastStep); g > rs.maxGap {
				rs.maxGap = g
			}
		}
		rs.lastStep = now
		kind := p.VerifBodyKind()
		rs.kinds[kind]++
		rs.ev(e.serial, 2)
		if rs.budget > 0 && rs.events > rs.budget {
			rs.overrun = true
		}
		if len(p.Providers) > 1 && kind != "fwd" && kind != "dropfwd" {
			rs.dups++
			seen := map[string]chan process.Message{}
			fns := p.Body.FreeNames()
			rs.kinds[fmt.Sprintf("dup-with-%d-free-names", len(fns))]++
			for _, n := range fns {
				if c, ok := seen[n.Ident]; ok && c != n.Channel {
					rs.dupSameIdent++
					break
				}
				seen[n.Ident] = n.Channel
			}
		}
		act, dur = perturb(rs.profile, rs.seed, uint64(e.serial), uint64(e.steps), kind, len(p.Providers))
	}
	s.mu.Unlock()
	switch act {
	case 1:
		runtime.Gosched()
	case 2:
		time.Sleep(time.Duration(dur) * time.Microsecond)
	}
}

// perturb decides, from the seed and the position of the step only, whether to yield or sleep.
func perturb(profile string, seed, serial, step uint64, kind string, nprov int) (act, dur int) {
	h := mix(seed, serial, step)
	switch profile {
	case "", "none":
		return 0, 0
	case "gosched":
		if h%3 == 0 {
			return 1, 0
		}
	case "sleep":
		if h%5 == 0 {
			return 2, int(h>>8) % 200
		}
	case "delay-fwd":
		if kind == "fwd" || kind == "dropfwd" {
			return 2, 50 + int(h>>8)%300
		}
	case "delay-provider":
		if kind == "send" || kind == "sel" || kind == "close" || kind == "cast" || kind == "recv" || kind == "case" || kind == "shift" {
			if h%2 == 0 {
				return 2, 50 + int(h>>8)%300
			}
		}
	case "delay-client":
		if kind == "wait" || kind == "split" || kind == "drop" || kind == "new" || kind == "call" {
			if h%2 == 0 {
				return 2, 50 + int(h>>8)%300
			}
		}
	case "delay-dup":
		if nprov > 1 {
			return 2, 100 + int(h>>8)%400
		}
	case "delay-call":
		// a freshly spawned callee is held before its CALL step, so that whoever forwards to it
		// or sends to it gets there first
		if kind == "call" {
			return 2, 100 + int(h>>8)%400
		}
	case "delay-print":
		if kind == "print" && h%2 == 0 {
			return 2, 50 + int(h>>8)%300
		}
	}
	return 0, 0
}

var profiles = []string{"none", "gosched", "sleep", "delay-fwd", "delay-provider", "delay-client", "delay-dup", "delay-print", "delay-call"}

func (s *sink) Idle(re *process.RuntimeEnvironment, p *process.Process) {
	if re.VerifCtxDone() {
		return
	}
	s.mu.Lock()
	if rs := s.get(re); rs != nil {
		if e := rs.tab[p]; e != nil {
			rs.ev(e.serial, 3)
			delete(rs.tab, p)
		}
	}
	s.mu.Unlock()
}

func (s *sink) Block(re *process.RuntimeEnvironment, p *process.Process, kind int, ch chan process.Message, cch chan process.ControlMessage, cch2 chan process.ControlMessage) {
	s.mu.Lock()
	if rs := s.get(re); rs != nil {
		if e := rs.tab[p]; e != nil {
			e.running = false
			e.kind, e.ch, e.cch, e.cch2 = kind, ch, cch, cch2
			rs.ev(e.serial, 4)
		}
	}
	s.mu.Unlock()
}

func (s *sink) Unblock(re *process.RuntimeEnvironment, p *process.Process, arm int) {
	s.mu.Lock()
	if rs := s.get(re); rs != nil {
		if e := rs.tab[p]; e != nil {
			e.running = true
			switch {
			case arm == 0 && (e.kind == process.VhSend || e.kind == process.VhSendCtl):
				rs.pend[e.ch]++
			case arm == 0 && (e.kind == process.VhRecv || e.kind == process.VhRecvCtl):
				rs.pend[e.ch]--
			case arm == 1:
				rs.cpend[e.cch]--
			case arm == 2:
				rs.cpend[e.cch2]++
			}
			rs.ev(e.serial, 5+uint64(arm))
		}
	}
	s.mu.Unlock()
}

func (s *sink) CtlRecv(re *process.RuntimeEnvironment, p *process.Process, cch chan process.ControlMessage) {
	s.mu.Lock()
	if rs := s.get(re); rs != nil {
		rs.cpend[cch]--
		if e := rs.tab[p]; e != nil {
			rs.ev(e.serial, 9)
		}
	}
	s.mu.Unlock()
}

func (s *sink) Recv(re *process.RuntimeEnvironment, p *process.Process, m *process.Message) {
	s.mu.Lock()
	if rs := s.get(re); rs != nil {
		rs.rules[process.RuleString[m.Rule]]++
		// a receive on a closed channel yields the zero Message: Rule SND (0) with no channels
		if m.Rule == process.SND && !m.Channel1.Initialized() && !m.Channel2.Initialized() && m.Channel1.Ident == "" && m.Channel2.Ident == "" {
			rs.zeroMsg++
		}
	}
	s.mu.Unlock()
}

func (s *sink) Print(re *process.RuntimeEnvironment, p *process.Process, label string) {
	s.mu.Lock()
	if rs := s.get(re); rs != nil {
		ser := 0
		if e := rs.tab[p]; e != nil {
			ser = e.serial
		}
		if rs != s.cur {
			s.stragglerPrints = append(s.stragglerPrints, label)
		}
		rs.prints = append(rs.prints, label)
		rs.printBy = append(rs.printBy, ser)
		rs.ev(ser, 10)
	}
	s.mu.Unlock()
}

// stable reports whether no process is running and no blocked operation can complete.
func (s *sink) stable(rs *runState) (bool, uint64) {
	s.mu.Lock()
	defer s.mu.Unlock()
	snd := map[chan process.Message]bool{}
	rcv := map[chan process.Message]bool{}
	csnd := map[chan process.ControlMessage]bool{}
	crcv := map[chan process.ControlMessage]bool{}
	for _, e := range rs.tab {
		if e.running {
			return false, rs.events
		}
		switch e.kind {
		case process.VhSend:
			snd[e.ch] = true
			if len(e.ch) < cap(e.ch) {
				return false, rs.events
			}
		case process.VhRecv:
			rcv[e.ch] = true
			if len(e.ch) > 0 {
				return false, rs.events
			}
		case process.VhSendCtl:
			snd[e.ch] = true
			crcv[e.cch] = true
		case process.VhRecvCtl:
			rcv[e.ch] = true
			crcv[e.cch] = true
		case process.VhFwdCtl:
			crcv[e.cch] = true
			csnd[e.cch2] = true
		}
	}
	for c := range snd {
		if rcv[c] {
			return false, rs.events
		}
	}
	for c, n := range rs.pend {
		if n != len(c) {
			return false, rs.events
		}
	}
	// a channel somebody is parked on and that has no acknowledged message at all is not in
	// the map: its buffer must be empty too (a sender that has put its message into the buffer
	// but has not yet reported back is not parked, whatever the table says)
	for c := range snd {
		if rs.pend[c] != len(c) {
			return false, rs.events
		}
	}
	for c := range rcv {
		if rs.pend[c] != len(c) {
			return false, rs.events
		}
	}
	for _, n := range rs.cpend {
		if n != 0 {
			return false, rs.events
		}
	}
	for c := range csnd {
		if crcv[c] {
			return false, rs.events
		}
	}
	return true, rs.events
}

// LiveEntry describes one process still in the table.
type LiveEntry struct {
	State     string   `json:"state"` // running | send | recv | send|ctl | recv|ctl | fwdctl
	Form      string   `json:"form"`
	Providers []string `json:"providers"`
	Serial    int      `json:"serial"`
	OnTop     bool     `json:"on_top"`   // blocked sending on a channel created for a top-level name
	ChanLen   int      `json:"chan_len"` // len of the channel it is blocked on
}

var kindName = map[int]string{process.VhSend: "send", process.VhRecv: "recv", process.VhSendCtl: "send|ctl", process.VhRecvCtl: "recv|ctl", process.VhFwdCtl: "fwdctl"}

func (s *sink) snapshot(rs *runState, top map[chan process.Message]bool) []LiveEntry {
	s.mu.Lock()
	defer s.mu.Unlock()
	var live []LiveEntry
	for p, e := range rs.tab {
		le := LiveEntry{State: kindName[e.kind], Form: p.VerifBodyKind(), Serial: e.serial}
		if e.running {
			le.State = "running"
		}
		for _, n := range p.Providers {
			le.Providers = append(le.Providers, n.Ident)
		}
		if e.ch != nil {
			le.OnTop = top[e.ch]
			le.ChanLen = len(e.ch)
		}
		live = append(live, le)
	}
	sort.Slice(live, func(i, j int) bool { return live[i].Serial < live[j].Serial })
	return live
}

func (l LiveEntry) String() string {
	return fmt.Sprintf("%s:%s[%s]", l.State, l.Form, strings.Join(l.Providers, ","))
}

// raceSink is used by the -race worker: no shared state, no synchronisation, so that the
// detector sees exactly the happens-before edges the interpreter itself creates.
type raceSink struct {
	profile string
	seed    uint64
}

func (s *raceSink) Spawn(re *process.RuntimeEnvironment, p *process.Process) {}
func (s *raceSink) Step(re *process.RuntimeEnvironment, p *process.Process) {
	// math/rand/v2 top-level functions use a per-thread source without locks
	switch s.profile {
	case "gosched":
		if rand.Uint32()%3 == 0 {
			runtime.Gosched()
		}
	case "sleep":
		if rand.Uint32()%5 == 0 {
			time.Sleep(time.Duration(rand.Uint32()%200) * time.Microsecond)
		}
	}
}
func (s *raceSink) Idle(re *process.RuntimeEnvironment, p *process.Process) {}
func (s *raceSink) Block(re *process.RuntimeEnvironment, p *process.Process, kind int, ch chan process.Message, cch chan process.ControlMessage, cch2 chan process.ControlMessage) {
}
func (s *raceSink) Unblock(re *process.RuntimeEnvironment, p *process.Process, arm int)               {}
func (s *raceSink) CtlRecv(re *process.RuntimeEnvironment, p *process.Process, c chan process.ControlMessage) {}
func (s *raceSink) Recv(re *process.RuntimeEnvironment, p *process.Process, m *process.Message)       {}
func (s *raceSink) Print(re *process.RuntimeEnvironment, p *process.Process, label string)            {}
