// gentool prints generated programs (debugging aid).
package main

import (
	"flag"
	"fmt"
	"verif/gen"
)

func main() {
	seed := flag.Int64("seed", 1, "seed")
	n := flag.Int("n", 1, "count")
	flag.Parse()
	for i := 0; i < *n; i++ {
		p, o, tries := gen.Generate(*seed+int64(i), nil)
		fmt.Printf("// seed %d mixed=%v main=%s tries=%d feat=%v\n%s\n", *seed+int64(i), o.Mixed, o.MainMode, tries, p.Feat, p.Text())
	}
}
