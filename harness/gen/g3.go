package gen

import (
	"fmt"
	"math/rand"
	"strings"
)

// G3: text-level workloads. RandSyntax produces texts that follow the grammar but make no
// semantic sense (garbage that parses); TokenSoup and EditText produce mostly ungrammatical
// texts.

var namePool = []string{"a", "b", "c", "x", "y", "z", "self", "w", "u", "v"}
var labelPool = []string{"l", "r", "zero", "succ", "ok", "no"}
var typeNamePool = []string{"A", "B", "C", "nat", "T", "U"}
var modePool = []string{"lin", "aff", "mul", "rep", "l", "a", "m", "r", "linear", "affine", "multicast", "replicable", "lim", "A"}
var funcPool = []string{"f", "g", "h"}

type syn struct{ r *rand.Rand }

func (s *syn) pick(xs []string) string { return xs[s.r.Intn(len(xs))] }

func (s *syn) name() string {
	n := s.pick(namePool)
	switch s.r.Intn(12) {
	case 0:
		return "+" + n
	case 1:
		return "-" + n
	}
	return n
}

func (s *syn) ty(d int) string {
	if d <= 0 {
		if s.r.Intn(2) == 0 {
			return "1"
		}
		return s.pick(typeNamePool)
	}
	switch s.r.Intn(9) {
	case 0:
		return "1"
	case 1:
		return s.pick(typeNamePool)
	case 2:
		return s.ty(d-1) + " * " + s.ty(d-1)
	case 3:
		return s.ty(d-1) + " -* " + s.ty(d-1)
	case 4, 5:
		op := "+"
		if s.r.Intn(2) == 0 {
			op = "&"
		}
		n := 1 + s.r.Intn(3)
		var bs []string
		for i := 0; i < n; i++ {
			bs = append(bs, s.pick(labelPool)+" : "+s.ty(d-1))
		}
		return op + "{" + strings.Join(bs, ", ") + "}"
	case 6:
		return "(" + s.ty(d-1) + ")"
	case 7:
		return s.pick(modePool[:4]) + " /\\ " + s.pick(modePool[:4]) + " " + s.ty(d-1)
	default:
		return s.pick(modePool[:4]) + " \\/ " + s.pick(modePool[:4]) + " " + s.ty(d-1)
	}
}

func (s *syn) fullTy(d int) string {
	if s.r.Intn(3) == 0 {
		return s.pick(modePool) + " " + s.ty(d)
	}
	return s.ty(d)
}

func (s *syn) term(d int) string {
	if d <= 0 {
		switch s.r.Intn(6) {
		case 0:
			return "close " + s.name()
		case 1:
			return fmt.Sprintf("send %s<%s, %s>", s.name(), s.name(), s.name())
		case 2:
			return fmt.Sprintf("%s.%s<%s>", s.name(), s.pick(labelPool), s.name())
		case 3:
			return fmt.Sprintf("fwd %s %s", s.name(), s.name())
		case 4:
			return fmt.Sprintf("cast %s<%s>", s.name(), s.name())
		default:
			n := s.r.Intn(3)
			var as []string
			for i := 0; i < n; i++ {
				as = append(as, s.name())
			}
			return fmt.Sprintf("%s(%s)", s.pick(funcPool), strings.Join(as, ", "))
		}
	}
	switch s.r.Intn(11) {
	case 0:
		return fmt.Sprintf("<%s, %s> <- recv %s; %s", s.pick(namePool[:6]), s.pick(namePool[:6]), s.name(), s.term(d-1))
	case 1:
		n := 1 + s.r.Intn(3)
		var bs []string
		for i := 0; i < n; i++ {
			bs = append(bs, fmt.Sprintf("%s<%s> => %s", s.pick(labelPool), s.name(), s.term(d-1)))
		}
		return fmt.Sprintf("case %s (%s)", s.name(), strings.Join(bs, " | "))
	case 2:
		return fmt.Sprintf("%s <- new %s; %s", s.name(), s.term(0), s.term(d-1))
	case 3:
		return fmt.Sprintf("%s : %s <- new %s; %s", s.pick(namePool[:6]), s.fullTy(1), s.term(0), s.term(d-1))
	case 4:
		return fmt.Sprintf("<%s, %s> <- split %s; %s", s.pick(namePool[:6]), s.pick(namePool[:6]), s.name(), s.term(d-1))
	case 5:
		return fmt.Sprintf("wait %s; %s", s.name(), s.term(d-1))
	case 6:
		return fmt.Sprintf("%s <- shift %s; %s", s.name(), s.name(), s.term(d-1))
	case 7:
		return fmt.Sprintf("drop %s; %s", s.name(), s.term(d-1))
	case 8:
		return fmt.Sprintf("print %s; %s", s.pick(labelPool), s.term(d-1))
	case 9:
		return "(" + s.term(d-1) + ")"
	default:
		return fmt.Sprintf("%s <- new (%s); %s", s.pick(namePool[:6]), s.term(d-1), s.term(d-1))
	}
}

// RandSyntax returns a grammatical but semantically arbitrary program.
func RandSyntax(r *rand.Rand) string {
	s := &syn{r}
	var b strings.Builder
	n := 1 + r.Intn(6)
	for i := 0; i < n; i++ {
		switch r.Intn(7) {
		case 0, 1:
			fmt.Fprintf(&b, "type %s = %s\n", s.pick(typeNamePool), s.fullTy(2))
		case 2, 3:
			np := r.Intn(3)
			var ps []string
			for j := 0; j < np; j++ {
				ps = append(ps, s.pick(namePool[:6])+" : "+s.fullTy(1))
			}
			if r.Intn(5) == 0 {
				fmt.Fprintf(&b, "let %s[%s : %s%s] = %s\n", s.pick(funcPool), s.pick(namePool[:6]), s.fullTy(1), prefixComma(ps), s.term(2))
			} else {
				fmt.Fprintf(&b, "let %s(%s) : %s = %s\n", s.pick(funcPool), strings.Join(ps, ", "), s.fullTy(2), s.term(2))
			}
		case 4, 5:
			names := s.pick(namePool[:6])
			if r.Intn(4) == 0 {
				names += ", " + s.pick(namePool[:6])
			}
			fmt.Fprintf(&b, "prc[%s] : %s = %s\n", names, s.fullTy(2), s.term(2))
		default:
			if r.Intn(2) == 0 {
				fmt.Fprintf(&b, "exec %s()\n", s.pick(funcPool))
			} else {
				fmt.Fprintf(&b, "assuming %s : %s\n", s.pick(namePool[:6]), s.fullTy(1))
			}
		}
	}
	return b.String()
}

func prefixComma(ps []string) string {
	if len(ps) == 0 {
		return ""
	}
	return ", " + strings.Join(ps, ", ")
}

var tokens = []string{"send", "recv", "receive", "case", "close", "wait", "cast", "shift", "drop", "split", "new", "fwd", "forward", "type", "let", "prc", "self", "assuming", "exec", "print",
	"in", "end", "sprc", "snew", "push", "acc", "acquire", "det", "rel",
	"<", ">", "(", ")", "[", "]", "{", "}", ".", ";", ":", "|", ",", "+", "*", "&", "%", "=", "=>", "<-", "-", "-*", "-o", "1", "/\\", "\\/", "/", "\\", "//", "/*", "*/",
	"a", "b", "x", "y", "l", "lin", "aff", "nat", "f", "A", "x'", "_", "1a", "12",
	"@", "#", "$", "~", "!", "?", "\"", "`", "^", "\x00", "é", "\t", "\n", "\r\n", " "}

// TokenSoup returns n random tokens separated by random whitespace.
func TokenSoup(r *rand.Rand, n int) string {
	var b strings.Builder
	for i := 0; i < n; i++ {
		b.WriteString(tokens[r.Intn(len(tokens))])
		switch r.Intn(4) {
		case 0:
		case 1:
			b.WriteString("\n")
		default:
			b.WriteString(" ")
		}
	}
	return b.String()
}

// EditText applies k random byte edits (flip, insert, delete, duplicate a chunk).
func EditText(r *rand.Rand, s string, k int) string {
	b := []byte(s)
	for i := 0; i < k; i++ {
		if len(b) == 0 {
			b = append(b, byte(r.Intn(256)))
			continue
		}
		p := r.Intn(len(b))
		switch r.Intn(5) {
		case 0:
			b[p] = byte(r.Intn(256))
		case 1:
			t := tokens[r.Intn(len(tokens))]
			b = append(b[:p], append([]byte(t), b[p:]...)...)
		case 2:
			b = append(b[:p], b[p+1:]...)
		case 3:
			q := p + r.Intn(20)
			if q > len(b) {
				q = len(b)
			}
			b = append(b[:q], append(append([]byte(nil), b[p:q]...), b[q:]...)...)
		default:
			b[p] = " \n\t;<>()[]{}"[r.Intn(12)]
		}
	}
	return string(b)
}
