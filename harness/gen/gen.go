// Package gen: G1, the type-directed generator of well-typed closed terminating Grits
// programs. It builds derivations of the adjoint SAX typing rules (restricted to Grits'
// syntax), so every program it returns is well typed by construction; the reference
// checker R1 re-checks each one and a rejection there is a harness bug, never a verdict.
package gen

import (
	"fmt"
	"math/rand"

	. "verif/ast"
)

type Opt struct {
	Mixed        bool // several modes, shifts
	MainMode     Mode
	MaxSplit     int
	Pol          int // percentage of name occurrences given a (correct) explicit polarity
	Alias        int // percentage: refer to the provider by its bound alias instead of self
	ExplicitSelf int // percentage of calls written f(self, ...)
	ExplicitProv int // percentage of helper functions declared let f[w : T, ...]
	Exec         int // percentage: use exec f() for a closed top-level process
	Print        int // percentage of print insertion per gen call
	TopMax       int // other top-level processes (besides main)
	Fuel         int
	MultiProv    int // percentage of top-level value processes declared with two names (contractable modes)
	Drop         int
	Split        int
	Tail         int // percentage: hand the whole context to a helper function by a tail call
	TopCall      int // percentage: a top-level process with free names is just a call
	Reuse        int // percentage: a cut re-binds the name of an argument its call consumes (x <- new f(x))
	Vary         int // percentage: a written type uses the unfolding of a name instead of the name
	Capture      int // percentage: the context is captured by a server that the client splits and uses twice
	CutFwd       int // percentage of tail calls spelt  x <- new f(...); fwd self x
	Ctor         int // percentage of producers built by a constructor function (0 = 25)
	Alpha        int // percentage of bound names spelt with random initial letters (a..z) instead of the fixed prefixes
	Wide         int // percentage of capturing servers whose context is padded with 7..11 fresh unit channels
	Cycle        int // percentage of programs with two extra top-level processes that refer to each other (one drops the other)
}

func DefaultOpt(r *rand.Rand) Opt {
	o := Opt{MaxSplit: 3, Pol: 4, Alias: 30, ExplicitSelf: 10, ExplicitProv: 10, Exec: 15, Print: 12, TopMax: 3, Fuel: 3, MultiProv: 25, Drop: 12, Split: 14, Tail: 8, CutFwd: 25, Cycle: 10}
	switch r.Intn(10) {
	case 0, 1, 2:
		o.Mixed = true
		o.MainMode = Lin
	case 3:
		o.Mixed = true
		o.MainMode = []Mode{Aff, Mul}[r.Intn(2)]
	default:
		o.MainMode = []Mode{Rep, Rep, Lin, Mul, Aff}[r.Intn(5)]
	}
	return o
}

type abort struct{ why string }

type G struct {
	R      *rand.Rand
	O      Opt
	Env    Env
	P      *Program
	nName  int
	nLbl   int
	nFn    int
	nTy    int
	mk     map[string]string // type key -> completed producer function
	cons   map[string]string // type key + "@" + mode -> consumer function
	splits int
	lib    map[string]bool
	budget int // total gen calls allowed (dead-end guard)
}

// Generate returns a program for the seed; it retries with derived seeds when a
// derivation runs into a dead end (e.g. a channel whose mode no rule can consume).
func Generate(seed int64, opt *Opt) (*Program, Opt, int) {
	for try := 0; ; try++ {
		r := rand.New(rand.NewSource(seed*7919 + int64(try)))
		o := DefaultOpt(r)
		if opt != nil {
			o = *opt
		}
		p, ok := tryGenerate(r, o)
		if ok {
			return p, o, try
		}
		if try > 200 {
			panic("gen: too many dead ends")
		}
	}
}

func tryGenerate(r *rand.Rand, o Opt) (p *Program, ok bool) {
	if o.Tail == 0 {
		o.Tail = 8
	}
	if o.TopCall == 0 {
		o.TopCall = 10
	}
	if o.Reuse == 0 {
		o.Reuse = 12
	}
	if o.Vary == 0 {
		o.Vary = 20
	}
	if o.Capture == 0 {
		o.Capture = 8
	}
	g := &G{R: r, O: o, Env: Env{}, P: &Program{Feat: map[string]int{}}, mk: map[string]string{}, cons: map[string]string{}, lib: map[string]bool{}, budget: 1500}
	defer func() {
		if e := recover(); e != nil {
			if _, isAbort := e.(abort); isAbort {
				p, ok = nil, false
				return
			}
			panic(e)
		}
	}()
	return g.program(), true
}

func (g *G) coin(pct int) bool { return g.R.Intn(100) < pct }
func (g *G) fresh(p string) string {
	g.nName++
	if g.O.Alpha > 0 && p != "v" && g.coin(g.O.Alpha) {
		// names over the whole alphabet (a digit keeps them clear of every keyword)
		const az = "abcdefghijklmnopqrstuvwxyz"
		p = string(az[g.R.Intn(26)])
		if p == "v" || g.coin(50) { // v<n> are the top-level processes (numbered separately)
			p += string(az[g.R.Intn(26)])
		}
	}
	return fmt.Sprintf("%s%d", p, g.nName)
}
// scope runs f with a fresh name counter: names are unique within one function or process
// body only, so different bodies use the same identifiers (as hand-written code does).
func (g *G) scope(f func()) {
	saved := g.nName
	g.nName = 0
	f()
	g.nName = saved
}

func (g *G) label() string { g.nLbl++; return fmt.Sprintf("p%d", g.nLbl) }
func (g *G) feat(s string) { g.P.Feat[s]++ }
func (g *G) die(why string) { panic(abort{why}) }

var modeSuffix = map[Mode]string{Rep: "R", Mul: "M", Aff: "A", Lin: "L"}

// lib declares (once) the recursive library type `base` at mode m and returns a reference.
func (g *G) libType(base string, m Mode) *Ty {
	name := base + modeSuffix[m]
	if !g.lib[name] {
		g.lib[name] = true
		switch base {
		case "nat":
			t := Plus(m, Branch{"zero", Unit(m)}, Branch{"succ", Named(name, m)})
			g.Env[name] = t
			g.P.Types = append(g.P.Types, TypeDef{Name: name, T: t})
		case "list":
			nat := g.libType("nat", m)
			t := Plus(m, Branch{"nil", Unit(m)}, Branch{"cons", Send(m, nat, Named(name, m))})
			g.Env[name] = t
			g.P.Types = append(g.P.Types, TypeDef{Name: name, T: t})
		case "srv":
			nat := g.libType("nat", m)
			t := With(m, Branch{"next", Send(m, nat, Named(name, m))}, Branch{"stop", Unit(m)})
			g.Env[name] = t
			g.P.Types = append(g.P.Types, TypeDef{Name: name, T: t})
		}
	}
	return Named(name, m)
}

func (g *G) libBase(t *Ty) string {
	if t.K != KName || len(t.Name) < 2 {
		return ""
	}
	b := t.Name[:len(t.Name)-1]
	if g.lib[t.Name] && (b == "nat" || b == "list" || b == "srv") {
		return b
	}
	return ""
}

func (g *G) modesAbove(m Mode) []Mode {
	var out []Mode
	for _, k := range AllModes {
		if Geq(k, m) {
			out = append(out, k)
		}
	}
	return out
}
func (g *G) modesBelow(m, floor Mode) []Mode {
	var out []Mode
	for _, k := range AllModes {
		if Geq(m, k) && Geq(k, floor) {
			out = append(out, k)
		}
	}
	return out
}

// randType produces a type of mode m. `floor` bounds the source modes of up-shifts from
// below (a consumer at mode >= floor... can always take the shifted channel), `out` says
// whether the position is one whose values travel towards the client.
func (g *G) randType(m Mode, floor Mode, d int, out bool) *Ty {
	if d <= 0 {
		if g.R.Intn(4) == 0 {
			return g.libType("nat", m)
		}
		return Unit(m)
	}
	n := 9
	if g.O.Mixed {
		n = 12
	}
	switch g.R.Intn(n) {
	case 0:
		return Unit(m)
	case 1:
		return Send(m, g.randType(m, floor, d-1, out), g.randType(m, floor, d-1, out))
	case 2:
		// the payload of -* travels towards the provider, who sits at mode m
		return Recv(m, g.randType(m, m, d-1, !out), g.randType(m, floor, d-1, out))
	case 3, 4:
		k := KPlus
		if g.coin(50) {
			k = KWith
		}
		nb := 1 + g.R.Intn(3)
		t := &Ty{K: k, M: m}
		for i := 0; i < nb; i++ {
			t.Br = append(t.Br, Branch{fmt.Sprintf("l%d", i), g.randType(m, floor, d-1, out)})
		}
		return t
	case 5:
		return g.libType("nat", m)
	case 6:
		return g.libType("list", m)
	case 7:
		return g.libType("srv", m)
	case 8:
		// alias: a fresh named type
		t := g.randType(m, floor, d-1, out)
		if t.K == KName {
			if !g.coin(50) {
				return t
			}
			g.feat("pure-alias") // type Tn = Tm
		}
		g.nTy++
		name := fmt.Sprintf("T%d", g.nTy)
		g.Env[name] = t
		g.P.Types = append(g.P.Types, TypeDef{Name: name, T: t})
		g.feat("alias")
		return Named(name, m)
	case 9, 10:
		// down shift from a stronger mode
		ks := g.modesAbove(m)
		k := ks[g.R.Intn(len(ks))]
		g.feat("ty-down")
		return Down(k, m, g.randType(k, floor, d-1, out))
	default:
		// up shift from a weaker mode, not below the floor
		ks := g.modesBelow(m, floor)
		if len(ks) == 0 {
			return Unit(m)
		}
		k := ks[g.R.Intn(len(ks))]
		g.feat("ty-up")
		return Up(k, m, g.randType(k, floor, d-1, out))
	}
}

func (g *G) unit(m Mode) *Ty { return Unit(m) }

func (g *G) pol(name string, t *Ty) string {
	if g.O.Pol > 0 && g.coin(g.O.Pol) && t != nil {
		g.feat("polarity")
		if Positive(t, g.Env) {
			return "+" + name
		}
		return "-" + name
	}
	return name
}

// ---- producers (closed providers of a type) ----

// producer returns a wrapper that cuts in a fresh channel of type A (built from nothing)
// and the channel's name. pm is the mode of the process that will hold the channel.
func (g *G) producer(A *Ty, fuel int) (func(*Term) *Term, string) {
	a := g.fresh("a")
	U := Unfold(A, g.Env)
	if g.libBase(A) == "srv" {
		fn := g.srvFunc(A)
		return func(c *Term) *Term {
			return &Term{Op: "new", Y: a, Body: g.cutCall(fn, nil), Cont: c}
		}, a
	}
	if U.K == KUnit && g.coin(70) {
		return func(c *Term) *Term {
			return &Term{Op: "new", Y: a, Ann: g.vary(A), Body: &Term{Op: "close", X: "self"}, Cont: c}
		}, a
	}
	ctor := g.O.Ctor
	if ctor == 0 {
		ctor = 25
	}
	if fuel > 0 && g.coin(ctor) {
		if w, n, ok := g.constructor(A, U, fuel, a); ok {
			return w, n
		}
	}
	if U.K == KPlus && g.coin(35) && fuel > 0 {
		br := g.pickBranch(A, U, fuel)
		w, p := g.producer(br.T, fuel-1)
		return func(c *Term) *Term {
			return w(&Term{Op: "new", Y: a, Ann: g.vary(A), Body: &Term{Op: "sel", X: "self", Lbl: br.L, Y: p}, Cont: c})
		}, a
	}
	if U.K == KSend && g.coin(35) && fuel > 0 {
		w1, p1 := g.producer(U.L, fuel-1)
		w2, p2 := g.producer(U.R, fuel-1)
		return func(c *Term) *Term {
			return w1(w2(&Term{Op: "new", Y: a, Ann: g.vary(A), Body: &Term{Op: "send", X: "self", Y: p1, Z: p2}, Cont: c}))
		}, a
	}
	if U.K == KDown && g.coin(35) && fuel > 0 {
		w, p := g.producer(U.L, fuel-1)
		return func(c *Term) *Term {
			return w(&Term{Op: "new", Y: a, Ann: g.vary(A), Body: &Term{Op: "cast", X: "self", Y: p}, Cont: c})
		}, a
	}
	fn := g.mkFunc(A, fuel)
	return func(c *Term) *Term {
		return &Term{Op: "new", Y: a, Body: g.cutCall(fn, nil), Cont: c}
	}, a
}

// pickBranch chooses a branch to produce; with little fuel the first branch (the
// non-recursive one for the library types) is taken so that producers are finite.
func (g *G) pickBranch(A, U *Ty, fuel int) Branch {
	if fuel <= 1 || g.libBase(A) != "" && g.coin(45) {
		return U.Br[0]
	}
	return U.Br[g.R.Intn(len(U.Br))]
}

func (g *G) mkFunc(A *Ty, fuel int) string {
	k := A.Key()
	if fn, ok := g.mk[k]; ok && (fuel <= 0 || g.coin(60)) {
		return fn
	}
	g.nFn++
	fn := fmt.Sprintf("mk%d", g.nFn)
	f := &Func{Name: fn, Ret: A}
	g.P.Funcs = append(g.P.Funcs, f)
	g.scope(func() { f.Body = g.gen(nil, A, fuel-1, "self") })
	g.mk[k] = fn // registered only when complete: a function under construction is never called
	return fn
}

// consFunc: cons(x : T) : 1 at mode q. Recursive only for the library types (structural).
func (g *G) consFunc(T *Ty, q Mode, fuel int) string {
	k := T.Key() + "@" + q.String()
	if fn, ok := g.cons[k]; ok {
		return fn
	}
	g.nFn++
	fn := fmt.Sprintf("cons%d", g.nFn)
	f := &Func{Name: fn, Params: []Var{{"x", g.vary(T)}}, Ret: g.unit(q)}
	g.P.Funcs = append(g.P.Funcs, f)
	if g.libBase(T) != "" {
		g.cons[k] = fn // structural recursion on a strict sub-term
		g.scope(func() { f.Body = g.recConsumer(T, q, fn) })
	} else {
		g.scope(func() { f.Body = g.elimX([]Var{{"x", T}}, 0, g.unit(q), fuel-1, true, "self") })
		g.cons[k] = fn
	}
	return fn
}

func (g *G) pr(c *Term) *Term { return &Term{Op: "print", Lbl: g.label(), Cont: c} }

func (g *G) recConsumer(T *Ty, q Mode, self string) *Term {
	m := T.M
	switch g.libBase(T) {
	case "nat":
		return &Term{Op: "case", X: "x", Brs: []CaseBr{
			{"zero", "u", g.pr(&Term{Op: "wait", X: "u", Cont: &Term{Op: "close", X: "self"}})},
			{"succ", "v", g.pr(&Term{Op: "call", Fn: self, Args: []string{"v"}})},
		}}
	case "list":
		cn := g.consFunc(g.libType("nat", m), q, 1)
		return &Term{Op: "case", X: "x", Brs: []CaseBr{
			{"nil", "u", g.pr(&Term{Op: "wait", X: "u", Cont: &Term{Op: "close", X: "self"}})},
			{"cons", "c", &Term{Op: "recv", X: "c", Y: "h", Z: "t", Cont: &Term{Op: "new", Y: "r", Body: g.cutCall(cn, []string{"h"}), Cont: &Term{Op: "wait", X: "r", Cont: g.pr(&Term{Op: "call", Fn: self, Args: []string{"t"}})}}}},
		}}
	case "srv":
		cn := g.consFunc(g.libType("nat", m), q, 1)
		n := g.R.Intn(3)
		var build func(x string, i int) *Term
		build = func(x string, i int) *Term {
			if i == 0 {
				r := g.fresh("r")
				return &Term{Op: "new", Y: r, Ann: g.vary(g.unit(m)), Body: &Term{Op: "sel", X: x, Lbl: "stop", Y: "self"}, Cont: &Term{Op: "wait", X: r, Cont: &Term{Op: "close", X: "self"}}}
			}
			r, h, t, u := g.fresh("r"), g.fresh("h"), g.fresh("t"), g.fresh("u")
			st := Send(m, g.libType("nat", m), T)
			return &Term{Op: "new", Y: r, Ann: g.vary(st), Body: &Term{Op: "sel", X: x, Lbl: "next", Y: "self"}, Cont: &Term{Op: "recv", X: r, Y: h, Z: t, Cont: &Term{Op: "new", Y: u, Body: g.cutCall(cn, []string{h}), Cont: &Term{Op: "wait", X: u, Cont: build(t, i-1)}}}}
		}
		return build("x", n)
	}
	panic("rec")
}

// srvFunc: the server serves constants until stopped (recursion guarded by case self).
func (g *G) srvFunc(A *Ty) string {
	key := "__srv" + A.Name
	if fn, ok := g.mk[key]; ok {
		return fn
	}
	fn := "serve" + modeSuffix[A.M]
	g.mk[key] = fn
	f := &Func{Name: fn, Ret: A}
	g.P.Funcs = append(g.P.Funcs, f)
	g.scope(func() {
		wn, n := g.producer(g.libType("nat", A.M), 2)
		f.Body = &Term{Op: "case", X: "self", Brs: []CaseBr{
			{"next", "z", g.pr(wn(&Term{Op: "new", Y: "s2", Body: g.cutCall(fn, nil), Cont: &Term{Op: "send", X: "self", Y: n, Z: "s2"}}))},
			{"stop", "z", g.pr(&Term{Op: "close", X: "self"})},
		}}
	})
	return fn
}

func rm(ctx []Var, i int) []Var {
	out := make([]Var, 0, len(ctx))
	out = append(out, ctx[:i]...)
	return append(out, ctx[i+1:]...)
}

func cp(ctx []Var) []Var { return append([]Var(nil), ctx...) }

// selfRef picks how to write the provider: "self" or its bound alias.
func (g *G) selfRef(self string) string {
	if self != "self" && g.coin(g.O.Alias) {
		g.feat("alias-self")
		return self
	}
	return "self"
}

// gen produces a term for ctx |- P :: (self : A); every name of ctx is consumed.
// Invariant: every ctx variable has a mode >= mode(A).
func (g *G) gen(ctx []Var, A *Ty, fuel int, self string) *Term {
	g.budget--
	if g.budget < 0 {
		g.die("budget")
	}
	for _, v := range ctx {
		if !Geq(v.T.M, A.M) {
			g.die("independence")
		}
	}
	if g.coin(g.O.Print) {
		g.feat("print")
		return &Term{Op: "print", Lbl: g.label(), Cont: g.gen(ctx, A, fuel, self)}
	}
	U := Unfold(A, g.Env)
	pos := Positive(A, g.Env)
	if !pos && (len(ctx) == 0 || g.coin(50)) {
		return g.rightNeg(ctx, A, U, fuel, self)
	}
	if len(ctx) > 0 {
		if len(ctx) == 1 && Equal(ctx[0].T, A, g.Env) && A.M.Contract() && fuel > 0 && g.splits < g.O.MaxSplit && g.coin(g.O.Split) {
			return g.splitFwd(ctx[0], A, fuel, self)
		}
		if len(ctx) == 1 && Equal(ctx[0].T, A, g.Env) && g.coin(40) {
			g.feat("fwd")
			return &Term{Op: "fwd", X: g.pol(g.selfRef(self), A), Y: g.pol(ctx[0].N, A)}
		}
		if t := g.ctxAxiom(ctx, A, U, self); t != nil {
			return t
		}
		if fuel > 0 && A.M.Contract() && g.splits < g.O.MaxSplit && g.coin(g.O.Capture) {
			return g.captureServer(ctx, A, fuel, self)
		}
		if fuel > 0 && A.M.Weaken() && len(ctx) >= 2 && g.coin(g.O.Capture) {
			return g.captureDrop(ctx, A, fuel, self)
		}
		if t := g.clientAxiom(ctx, A, fuel, self); t != nil {
			return t
		}
		if fuel > 0 && g.coin(g.O.Tail) {
			return g.tailCall(ctx, A, fuel, self)
		}
		if pos && fuel > 0 && g.coin(15) {
			if t := g.rightPosWithCtx(ctx, A, U, fuel, self); t != nil {
				return t
			}
		}
		return g.elimX(ctx, g.R.Intn(len(ctx)), A, fuel, false, self)
	}
	return g.rightPos(A, U, fuel, self)
}

func (g *G) newHelper(prefix string, params []Var, ret *Ty) *Func {
	g.nFn++
	f := &Func{Name: fmt.Sprintf("%s%d", prefix, g.nFn), Ret: ret}
	for _, v := range params {
		f.Params = append(f.Params, Var{g.fresh("q"), g.vary(v.T)})
	}
	if g.coin(g.O.ExplicitProv) {
		f.Prov = g.fresh("w")
		g.feat("explicit-prov")
	}
	g.P.Funcs = append(g.P.Funcs, f)
	return f
}

func (g *G) callTerm(f *Func, args []string, self string, tail bool) *Term {
	if tail && g.coin(g.O.ExplicitSelf) {
		g.feat("explicit-self-call")
		return &Term{Op: "call", Fn: f.Name, Args: append([]string{g.selfRef(self)}, args...)}
	}
	return &Term{Op: "call", Fn: f.Name, Args: args}
}

func (g *G) helperBody(f *Func, fuel int) {
	g.scope(func() {
		// the parameters get names of the callee's own scope
		for i := range f.Params {
			f.Params[i].N = g.fresh("q")
		}
		self := "self"
		if f.Prov != "" {
			f.Prov = g.fresh("w")
			self = f.Prov
		}
		f.Body = g.gen(cp(f.Params), f.Ret, fuel, self)
	})
}

func (g *G) tailCall(ctx []Var, A *Ty, fuel int, self string) *Term {
	f := g.newHelper("h", ctx, A)
	var args []string
	for _, v := range ctx {
		args = append(args, g.pol(v.N, v.T))
	}
	g.helperBody(f, fuel-1)
	if g.coin(g.O.CutFwd) {
		// the same thing spelt as a cut followed by a forward: the callee is the target of a
		// forward that may already be parked on its control channel when it takes its CALL step
		g.feat("cut-fwd")
		x := g.fresh("x")
		return &Term{Op: "new", Y: x, Body: g.cutCall(f.Name, args), Cont: &Term{Op: "fwd", X: g.pol(g.selfRef(self), A), Y: g.pol(x, A)}}
	}
	g.feat("tailcall")
	return g.callTerm(f, args, self, true)
}

func (g *G) rightNeg(ctx []Var, A, U *Ty, fuel int, self string) *Term {
	switch U.K {
	case KRecv:
		y, z := g.fresh("y"), g.fresh("z")
		g.feat("recvR")
		return &Term{Op: "recv", X: g.pol(g.selfRef(self), A), Y: y, Z: z, Cont: g.gen(append(cp(ctx), Var{y, U.L}), U.R, fuel, z)}
	case KWith:
		t := &Term{Op: "case", X: g.pol(g.selfRef(self), A)}
		g.feat("caseR")
		for _, br := range U.Br {
			z := g.fresh("z")
			t.Brs = append(t.Brs, CaseBr{br.L, z, g.gen(cp(ctx), br.T, fuel-1, z)})
		}
		return t
	case KUp:
		z := g.fresh("z")
		g.feat("shiftR")
		return &Term{Op: "shift", X: g.pol(g.selfRef(self), A), Y: z, Cont: g.gen(ctx, U.L, fuel, z)}
	}
	panic("rightNeg")
}

func (g *G) rightPos(A, U *Ty, fuel int, self string) *Term {
	switch U.K {
	case KUnit:
		return &Term{Op: "close", X: g.pol(g.selfRef(self), A)}
	case KSend:
		w1, a := g.producer(U.L, fuel-1)
		w2, b := g.producer(U.R, fuel-1)
		g.feat("sendR")
		return w1(w2(&Term{Op: "send", X: g.pol(g.selfRef(self), A), Y: g.pol(a, U.L), Z: g.pol(b, U.R)}))
	case KPlus:
		br := g.pickBranch(A, U, fuel)
		w, a := g.producer(br.T, fuel-1)
		g.feat("selR")
		return w(&Term{Op: "sel", X: g.pol(g.selfRef(self), A), Lbl: br.L, Y: g.pol(a, br.T)})
	case KDown:
		w, a := g.producer(U.L, fuel-1)
		g.feat("castR")
		return w(&Term{Op: "cast", X: g.pol(g.selfRef(self), A), Y: g.pol(a, U.L)})
	}
	panic("rightPos")
}

// rightPosWithCtx: a positive right rule while the context is non-empty; the context is
// handed to helper functions that build the payload / continuation.
func (g *G) rightPosWithCtx(ctx []Var, A, U *Ty, fuel int, self string) *Term {
	helper := func(part []Var, T *Ty) (func(*Term) *Term, string) {
		if len(part) == 0 {
			return g.producer(T, fuel-1)
		}
		if len(part) == 1 && Equal(part[0].T, T, g.Env) {
			return func(c *Term) *Term { return c }, part[0].N
		}
		f := g.newHelper("h", part, T)
		f.Prov = ""
		var args []string
		for _, v := range part {
			args = append(args, v.N)
		}
		g.helperBody(f, fuel-1)
		a := g.fresh("a")
		if g.coin(g.O.Reuse) {
			a = part[0].N
			g.feat("cut-reuse")
		}
		return func(c *Term) *Term {
			return &Term{Op: "new", Y: a, Body: g.cutCall(f.Name, args), Cont: c}
		}, a
	}
	ok := func(part []Var, T *Ty) bool {
		for _, v := range part {
			if !Geq(v.T.M, T.M) {
				return false
			}
		}
		return true
	}
	switch U.K {
	case KSend:
		var p1, p2 []Var
		for _, v := range ctx {
			if g.coin(50) {
				p1 = append(p1, v)
			} else {
				p2 = append(p2, v)
			}
		}
		if !ok(p1, U.L) || !ok(p2, U.R) {
			return nil
		}
		w1, a := helper(p1, U.L)
		w2, b := helper(p2, U.R)
		g.feat("sendRctx")
		return w1(w2(&Term{Op: "send", X: g.selfRef(self), Y: a, Z: b}))
	case KPlus:
		br := g.pickBranch(A, U, fuel)
		if !ok(ctx, br.T) {
			return nil
		}
		w, a := helper(ctx, br.T)
		g.feat("selRctx")
		return w(&Term{Op: "sel", X: g.selfRef(self), Lbl: br.L, Y: a})
	case KDown:
		if !ok(ctx, U.L) {
			return nil
		}
		w, a := helper(ctx, U.L)
		g.feat("castRctx")
		return w(&Term{Op: "cast", X: g.selfRef(self), Y: a})
	}
	return nil
}

// elimX eliminates ctx[i] by the left rule of its type (or drop / split / delegation).
func (g *G) elimX(ctx []Var, i int, A *Ty, fuel int, noDeleg bool, self string) *Term {
	x := ctx[i]
	rest := rm(ctx, i)
	U := Unfold(x.T, g.Env)
	m := A.M
	if x.T.M.Weaken() && g.coin(g.O.Drop) {
		g.feat("drop")
		return &Term{Op: "drop", X: g.pol(x.N, x.T), Cont: g.gen(rest, A, fuel, self)}
	}
	if x.T.M.Contract() && g.splits < g.O.MaxSplit && g.coin(g.O.Split) {
		g.splits++
		g.feat("split")
		x1, x2 := g.fresh("s"), g.rebind(g.fresh("s"), x.N)
		return &Term{Op: "split", X: g.pol(x.N, x.T), Y: x1, Z: x2, Cont: g.gen(append(rest, Var{x1, x.T}, Var{x2, x.T}), A, fuel, self)}
	}
	rec := g.libBase(x.T) != ""
	if rec && (fuel <= 0 || g.coin(60)) || (!noDeleg && !rec && fuel > 0 && g.coin(15)) {
		// delegate to a consumer providing 1 at the current mode
		fn := g.consFunc(x.T, m, fuel)
		u := g.fresh("u")
		if g.coin(g.O.Reuse) {
			u = x.N // the call consumes x, the cut binds the name again
			g.feat("cut-reuse")
		}
		g.feat("consume")
		return &Term{Op: "new", Y: u, Body: g.cutCall(fn, []string{g.pol(x.N, x.T)}), Cont: &Term{Op: "wait", X: u, Cont: g.gen(rest, A, fuel, self)}}
	}
	switch U.K {
	case KUnit:
		return &Term{Op: "wait", X: g.pol(x.N, x.T), Cont: g.gen(rest, A, fuel, self)}
	case KSend:
		y, z := g.fresh("y"), g.rebind(g.fresh("z"), x.N)
		g.feat("recvL")
		return &Term{Op: "recv", X: g.pol(x.N, x.T), Y: y, Z: z, Cont: g.gen(append(rest, Var{y, U.L}, Var{z, U.R}), A, fuel, self)}
	case KPlus:
		t := &Term{Op: "case", X: g.pol(x.N, x.T)}
		g.feat("caseL")
		for _, br := range U.Br {
			y := g.rebind(g.fresh("y"), x.N)
			t.Brs = append(t.Brs, CaseBr{br.L, y, g.gen(append(cp(rest), Var{y, br.T}), A, fuel-1, self)})
		}
		return t
	case KDown:
		y := g.rebind(g.fresh("y"), x.N)
		g.feat("shiftL")
		return &Term{Op: "shift", X: g.pol(x.N, x.T), Y: y, Cont: g.gen(append(rest, Var{y, U.L}), A, fuel, self)}
	case KRecv:
		var w func(*Term) *Term
		var b string
		found := -1
		for j, v := range rest {
			if Equal(v.T, U.L, g.Env) && g.coin(60) {
				found = j
				break
			}
		}
		if found >= 0 {
			b = rest[found].N
			rest = rm(rest, found)
			w = func(c *Term) *Term { return c }
			g.feat("payload-reuse")
		} else {
			w, b = g.producer(U.L, fuel-1)
		}
		r := g.fresh("r")
		g.feat("sendL")
		return w(&Term{Op: "new", Y: r, Ann: g.vary(U.R), Body: &Term{Op: "send", X: g.pol(x.N, x.T), Y: b, Z: "self"}, Cont: g.gen(append(rest, Var{r, U.R}), A, fuel, self)})
	case KWith:
		br := U.Br[g.R.Intn(len(U.Br))]
		if g.libBase(x.T) == "srv" && fuel <= 1 {
			br = U.Br[1]
		}
		r := g.fresh("r")
		g.feat("selL")
		return &Term{Op: "new", Y: r, Ann: g.vary(br.T), Body: &Term{Op: "sel", X: g.pol(x.N, x.T), Lbl: br.L, Y: "self"}, Cont: g.gen(append(rest, Var{r, br.T}), A, fuel-1, self)}
	case KUp:
		if !Geq(U.From, m) {
			// the shifted channel would be weaker than this provider: no rule applies here
			if x.T.M.Weaken() {
				g.feat("drop")
				return &Term{Op: "drop", X: x.N, Cont: g.gen(rest, A, fuel, self)}
			}
			g.die("upshift below provider")
		}
		r := g.fresh("r")
		g.feat("castL")
		return &Term{Op: "new", Y: r, Ann: g.vary(U.L), Body: &Term{Op: "cast", X: g.pol(x.N, x.T), Y: "self"}, Cont: g.gen(append(rest, Var{r, U.L}), A, fuel, self)}
	}
	panic("elim")
}

func (g *G) program() *Program {
	f0 := g.O.MainMode
	nTop := 0
	if g.O.TopMax > 0 {
		nTop = g.R.Intn(g.O.TopMax + 1)
	}
	var avail []Var
	for i := 0; i < nTop; i++ {
		if pr := g.topClientAxiom(&avail); pr != nil {
			g.P.Procs = append(g.P.Procs, pr)
			for _, n := range pr.Names {
				avail = append(avail, Var{n, pr.T})
			}
			continue
		}
		if len(avail) > 0 && g.splits < g.O.MaxSplit && g.coin(g.O.Split/2) {
			// a relay: a top-level process that splits another one, gets rid of one half and
			// forwards to the other
			k := g.R.Intn(len(avail))
			if v := avail[k]; v.T.M.Contract() && Geq(v.T.M, f0) {
				w := g.fresh("v")
				var body *Term
				g.scope(func() { body = g.splitFwd(v, v.T, g.O.Fuel, "self") })
				g.P.Procs = append(g.P.Procs, &Proc{Names: []string{w}, T: v.T, Body: body})
				avail[k] = Var{w, v.T}
				g.feat("top-relay")
				continue
			}
		}
		m := f0
		if g.O.Mixed {
			ms := g.modesAbove(f0)
			m = ms[g.R.Intn(len(ms))]
		}
		T := g.randType(m, f0, 2, true)
		names := []string{g.fresh("v")}
		if m.Contract() && g.coin(g.O.MultiProv) {
			names = append(names, g.fresh("v"))
			g.feat("multiprov")
		}
		var ctx, keep []Var
		for _, v := range avail {
			if Geq(v.T.M, m) && g.upsOK(v.T, m, map[string]bool{}) && g.coin(40) {
				ctx = append(ctx, v)
			} else {
				keep = append(keep, v)
			}
		}
		avail = keep
		self := "self"
		var body *Term
		if g.libBase(T) == "srv" && len(ctx) == 0 {
			body = &Term{Op: "call", Fn: g.srvFunc(T)}
		} else if len(ctx) > 0 && g.coin(g.O.TopCall) {
			g.scope(func() { body = g.tailCall(ctx, T, g.O.Fuel, "self") })
			g.feat("top-call")
		} else {
			g.scope(func() { body = g.gen(ctx, T, g.O.Fuel, self) })
		}
		if len(names) == 1 && len(ctx) == 0 && g.coin(g.O.Exec) && len(FreeVars(body)) == 0 {
			// a closed value as a function run by exec: its channel is called exec<i>
			g.nFn++
			fn := fmt.Sprintf("execf%d", g.nFn)
			g.P.Funcs = append(g.P.Funcs, &Func{Name: fn, Ret: T, Body: body})
			g.P.Execs = append(g.P.Execs, fn)
			g.feat("exec-value")
			avail = append(avail, Var{fmt.Sprintf("exec%d", len(g.P.Execs)), T})
			continue
		}
		g.P.Procs = append(g.P.Procs, &Proc{Names: names, T: T, Body: body})
		for _, n := range names {
			avail = append(avail, Var{n, T})
		}
	}
	if f0.Weaken() && g.coin(g.O.Cycle) {
		// two top-level processes that refer to each other: one drops the other (a provider of
		// negative type that first waits for the dropper to finish) and then ends
		cm, cs := g.fresh("v"), g.fresh("v")
		g.feat("drop-cycle")
		g.P.Procs = append(g.P.Procs,
			&Proc{Names: []string{cm}, T: Unit(f0), Body: &Term{Op: "drop", X: cs, Cont: &Term{Op: "print", Lbl: g.label(), Cont: &Term{Op: "close", X: "self"}}}},
			&Proc{Names: []string{cs}, T: Recv(f0, Unit(f0), Unit(f0)), Body: &Term{Op: "wait", X: cm, Cont: &Term{Op: "print", Lbl: g.label(), Cont: &Term{Op: "recv", X: "self", Y: "dx", Z: "dy", Cont: &Term{Op: "wait", X: "dx", Cont: &Term{Op: "close", X: "self"}}}}}})
	}
	asExec := g.coin(g.O.Exec) && len(avail) == 0
	mainSelf := "self"
	var mainBody *Term
	g.scope(func() { mainBody = g.gen(avail, g.unit(f0), g.O.Fuel+1, mainSelf) })
	if asExec {
		// main as a function run by exec
		g.P.Funcs = append(g.P.Funcs, &Func{Name: "mainf", Ret: g.unit(f0), Body: mainBody})
		g.P.Execs = append(g.P.Execs, "mainf")
		g.feat("exec")
	} else {
		g.P.Procs = append(g.P.Procs, &Proc{Names: []string{"main"}, T: g.unit(f0), Body: mainBody})
	}
	return g.P
}

// upsOK: every up-shift inside T has a source mode >= c, so a consumer at mode c can
// follow every path of T (conservative: looks at all positions).
func (g *G) upsOK(t *Ty, c Mode, seen map[string]bool) bool {
	if t == nil {
		return true
	}
	switch t.K {
	case KName:
		if seen[t.Name] {
			return true
		}
		seen[t.Name] = true
		return g.upsOK(g.Env[t.Name], c, seen)
	case KUp:
		return Geq(t.From, c) && g.upsOK(t.L, c, seen)
	case KPlus, KWith:
		for _, b := range t.Br {
			if !g.upsOK(b.T, c, seen) {
				return false
			}
		}
		return true
	}
	return g.upsOK(t.L, c, seen) && g.upsOK(t.R, c, seen)
}

// clientAxiom: the whole process is one axiomatic left rule whose continuation is self
// (send x<b, self>, x.l<self>, cast x<self>): possible when x's continuation type is A.
func (g *G) clientAxiom(ctx []Var, A *Ty, fuel int, self string) *Term {
	if len(ctx) > 2 || !g.coin(45) {
		return nil
	}
	for i, x := range ctx {
		rest := rm(ctx, i)
		U := Unfold(x.T, g.Env)
		switch U.K {
		case KRecv:
			if !Equal(U.R, A, g.Env) {
				continue
			}
			if len(rest) == 1 && Equal(rest[0].T, U.L, g.Env) {
				g.feat("client-axiom-send")
				return &Term{Op: "send", X: g.pol(x.N, x.T), Y: g.pol(rest[0].N, U.L), Z: g.selfRef(self)}
			}
			if len(rest) == 0 {
				w, b := g.producer(U.L, fuel-1)
				g.feat("client-axiom-send")
				return w(&Term{Op: "send", X: g.pol(x.N, x.T), Y: b, Z: g.selfRef(self)})
			}
		case KWith:
			if len(rest) != 0 {
				continue
			}
			for _, br := range U.Br {
				if Equal(br.T, A, g.Env) {
					g.feat("client-axiom-select")
					return &Term{Op: "sel", X: g.pol(x.N, x.T), Lbl: br.L, Y: g.selfRef(self)}
				}
			}
		case KUp:
			if len(rest) == 0 && U.From == A.M && Equal(U.L, A, g.Env) {
				g.feat("client-axiom-cast")
				return &Term{Op: "cast", X: g.pol(x.N, x.T), Y: g.selfRef(self)}
			}
		}
	}
	return nil
}

// rebind: with probability Reuse the binder takes the name of the channel just consumed.
func (g *G) rebind(fresh, consumed string) string {
	if g.coin(g.O.Reuse) {
		g.feat("rebind-consumed")
		return consumed
	}
	return fresh
}

// vary returns a type equal to t but possibly written differently: a name replaced by its
// one-step unfolding, somewhere in the type.
func (g *G) vary(t *Ty) *Ty {
	if t == nil || !g.coin(g.O.Vary) {
		return t
	}
	var rec func(x *Ty, depth int) *Ty
	rec = func(x *Ty, depth int) *Ty {
		if x == nil {
			return nil
		}
		if x.K == KName {
			if g.coin(60) {
				g.feat("type-written-unfolded")
				return g.Env[x.Name]
			}
			return x
		}
		if depth <= 0 {
			return x
		}
		c := *x
		c.L, c.R = rec(x.L, depth-1), rec(x.R, depth-1)
		if x.Br != nil {
			c.Br = make([]Branch, len(x.Br))
			for i, b := range x.Br {
				c.Br[i] = Branch{L: b.L, T: rec(b.T, depth-1)}
			}
		}
		return &c
	}
	return rec(t, 2)
}

// topClientAxiom: a top-level process (often with two names) whose whole body is a client
// axiom on another top-level name: x.l<self>, send x<y, self> or cast x<self>. Its first
// and only action is a send on somebody else's channel.
func (g *G) topClientAxiom(avail *[]Var) *Proc {
	if !g.coin(30) {
		return nil
	}
	for i, x := range *avail {
		U := Unfold(x.T, g.Env)
		var T *Ty
		var body *Term
		rest := rm(*avail, i)
		switch U.K {
		case KWith:
			br := U.Br[g.R.Intn(len(U.Br))]
			T = br.T
			body = &Term{Op: "sel", X: x.N, Lbl: br.L, Y: "self"}
		case KRecv:
			for j, y := range rest {
				if Equal(y.T, U.L, g.Env) {
					T = U.R
					body = &Term{Op: "send", X: x.N, Y: y.N, Z: "self"}
					rest = rm(rest, j)
					break
				}
			}
		case KUp:
			T = U.L
			body = &Term{Op: "cast", X: x.N, Y: "self"}
		}
		if body == nil || !Geq(T.M, g.O.MainMode) {
			continue
		}
		names := []string{g.fresh("v")}
		if T.M.Contract() && g.coin(70) {
			names = append(names, g.fresh("v"))
			g.feat("multiprov")
		}
		g.feat("top-client-axiom")
		*avail = rest
		return &Proc{Names: names, T: T, Body: body}
	}
	return nil
}

// ctxAxiom: the context is exactly what a positive right axiom needs (send self<x, y>,
// self.l<x>, cast self<x>): the names of the context are used as they are, whatever way
// their types are written (names, unfoldings).
func (g *G) ctxAxiom(ctx []Var, A, U *Ty, self string) *Term {
	if !g.coin(60) {
		return nil
	}
	switch {
	case U.K == KSend && len(ctx) == 2:
		for _, o := range [][2]int{{0, 1}, {1, 0}} {
			x, y := ctx[o[0]], ctx[o[1]]
			if Equal(x.T, U.L, g.Env) && Equal(y.T, U.R, g.Env) {
				g.feat("ctx-axiom-send")
				return &Term{Op: "send", X: g.pol(g.selfRef(self), A), Y: g.pol(x.N, x.T), Z: g.pol(y.N, y.T)}
			}
		}
	case U.K == KPlus && len(ctx) == 1:
		for _, br := range U.Br {
			if Equal(ctx[0].T, br.T, g.Env) {
				g.feat("ctx-axiom-select")
				return &Term{Op: "sel", X: g.pol(g.selfRef(self), A), Lbl: br.L, Y: g.pol(ctx[0].N, ctx[0].T)}
			}
		}
	case U.K == KDown && len(ctx) == 1:
		if ctx[0].T.M == U.From && Equal(ctx[0].T, U.L, g.Env) {
			g.feat("ctx-axiom-cast")
			return &Term{Op: "cast", X: g.pol(g.selfRef(self), A), Y: g.pol(ctx[0].N, ctx[0].T)}
		}
	}
	return nil
}

// constructor: a channel of type A is built by a small "constructor" function whose body is
// the positive right axiom on its parameters, e.g.
//   let pairN(q1 : T1, q2 : T2) : T1 * T2 = send self<q1, q2>
// as hand-written programs do (cons, succ, ...). The parameters keep the types as written.
func (g *G) constructor(A, U *Ty, fuel int, a string) (func(*Term) *Term, string, bool) {
	mkFn := func(params []Var, body func(ps []Var) *Term) string {
		g.nFn++
		f := &Func{Name: fmt.Sprintf("ctor%d", g.nFn), Ret: g.vary(A)}
		g.scope(func() {
			for _, v := range params {
				f.Params = append(f.Params, Var{g.fresh("q"), g.vary(v.T)})
			}
			f.Body = body(f.Params)
		})
		g.P.Funcs = append(g.P.Funcs, f)
		g.feat("constructor")
		return f.Name
	}
	switch U.K {
	case KSend:
		w1, p1 := g.producer(U.L, fuel-1)
		w2, p2 := g.producer(U.R, fuel-1)
		fn := mkFn([]Var{{"", U.L}, {"", U.R}}, func(ps []Var) *Term {
			return &Term{Op: "send", X: "self", Y: g.pol(ps[0].N, ps[0].T), Z: g.pol(ps[1].N, ps[1].T)}
		})
		return func(c *Term) *Term {
			return w1(w2(&Term{Op: "new", Y: a, Body: g.cutCall(fn, []string{p1, p2}), Cont: c}))
		}, a, true
	case KPlus:
		br := g.pickBranch(A, U, fuel)
		w, p := g.producer(br.T, fuel-1)
		fn := mkFn([]Var{{"", br.T}}, func(ps []Var) *Term {
			return &Term{Op: "sel", X: "self", Lbl: br.L, Y: g.pol(ps[0].N, ps[0].T)}
		})
		return func(c *Term) *Term {
			return w(&Term{Op: "new", Y: a, Body: g.cutCall(fn, []string{p}), Cont: c})
		}, a, true
	case KDown:
		w, p := g.producer(U.L, fuel-1)
		fn := mkFn([]Var{{"", U.L}}, func(ps []Var) *Term {
			return &Term{Op: "cast", X: "self", Y: g.pol(ps[0].N, ps[0].T)}
		})
		return func(c *Term) *Term {
			return w(&Term{Op: "new", Y: a, Body: g.cutCall(fn, []string{p}), Cont: c})
		}, a, true
	}
	return nil, "", false
}

// captureServer: the whole context is handed to a server of type &{go : 1}; the client
// splits the server and uses both halves, so the server is duplicated while it holds every
// captured channel (each copy consumes its own copies of them).
func (g *G) captureServer(ctx []Var, A *Ty, fuel int, self string) *Term {
	m := A.M
	ctx, wrapPad := g.padCtx(ctx, m)
	t := g.captureServer0(ctx, A, fuel, self)
	return wrapPad(t)
}

func (g *G) captureServer0(ctx []Var, A *Ty, fuel int, self string) *Term {
	m := A.M
	g.splits++
	S := With(m, Branch{L: "go", T: Unit(m)})
	g.nFn++
	f := &Func{Name: fmt.Sprintf("srvc%d", g.nFn), Ret: S}
	for _, v := range ctx {
		f.Params = append(f.Params, Var{"", g.vary(v.T)})
	}
	g.P.Funcs = append(g.P.Funcs, f)
	g.scope(func() {
		for i := range f.Params {
			f.Params[i].N = g.fresh("q")
		}
		k := g.fresh("z")
		f.Body = &Term{Op: "case", X: "self", Brs: []CaseBr{{Lbl: "go", Var: k, Body: g.gen(cp(f.Params), Unit(m), fuel-1, k)}}}
	})
	var args []string
	for _, v := range ctx {
		args = append(args, v.N)
	}
	srv, s1, s2, r1, r2 := g.fresh("g"), g.fresh("g"), g.fresh("g"), g.fresh("r"), g.fresh("r")
	g.feat("capture-server")
	use := func(s, r string, c *Term) *Term {
		return &Term{Op: "new", Y: r, Ann: Unit(m), Body: &Term{Op: "sel", X: s, Lbl: "go", Y: "self"}, Cont: &Term{Op: "wait", X: r, Cont: c}}
	}
	rest := g.gen(nil, A, fuel-1, self)
	if m.Weaken() && g.coin(35) {
		// one half is used, the other dropped: a parked process holding every captured channel
		// is told to go away and has to pass the request on to all of them
		g.feat("capture-server-drop-half")
		if g.coin(50) {
			return &Term{Op: "new", Y: srv, Body: g.cutCall(f.Name, args), Cont: &Term{Op: "split", X: srv, Y: s1, Z: s2, Cont: &Term{Op: "drop", X: s1, Cont: use(s2, r2, rest)}}}
		}
		return &Term{Op: "new", Y: srv, Body: g.cutCall(f.Name, args), Cont: &Term{Op: "split", X: srv, Y: s1, Z: s2, Cont: use(s1, r1, &Term{Op: "drop", X: s2, Cont: rest})}}
	}
	return &Term{Op: "new", Y: srv, Body: g.cutCall(f.Name, args), Cont: &Term{Op: "split", X: srv, Y: s1, Z: s2, Cont: use(s1, r1, use(s2, r2, rest))}}
}

// captureDrop: the whole context is handed to a server of type &{go : 1} that is dropped
// without ever being used: the drop request reaches a parked process with several free
// names (positive and negative ones) and must be passed on to each of them.
func (g *G) captureDrop(ctx []Var, A *Ty, fuel int, self string) *Term {
	ctx, wrapPad := g.padCtx(ctx, A.M)
	return wrapPad(g.captureDrop0(ctx, A, fuel, self))
}

func (g *G) captureDrop0(ctx []Var, A *Ty, fuel int, self string) *Term {
	m := A.M
	S := With(m, Branch{L: "go", T: Unit(m)})
	g.nFn++
	f := &Func{Name: fmt.Sprintf("srvd%d", g.nFn), Ret: S}
	for _, v := range ctx {
		f.Params = append(f.Params, Var{"", g.vary(v.T)})
	}
	g.P.Funcs = append(g.P.Funcs, f)
	g.scope(func() {
		for i := range f.Params {
			f.Params[i].N = g.fresh("q")
		}
		k := g.fresh("z")
		f.Body = &Term{Op: "case", X: "self", Brs: []CaseBr{{Lbl: "go", Var: k, Body: g.gen(cp(f.Params), Unit(m), fuel-1, k)}}}
	})
	var args []string
	for _, v := range ctx {
		args = append(args, v.N)
	}
	srv := g.fresh("g")
	g.feat("capture-drop")
	return &Term{Op: "new", Y: srv, Body: g.cutCall(f.Name, args), Cont: &Term{Op: "drop", X: srv, Cont: g.gen(nil, A, fuel-1, self)}}
}

// cutCall builds the call used as the body of a cut; with probability ExplicitSelf the
// spawned process passes itself explicitly: x <- new f(self, args).
func (g *G) cutCall(fn string, args []string) *Term {
	if g.coin(g.O.ExplicitSelf) {
		g.feat("explicit-self-in-cut")
		return &Term{Op: "call", Fn: fn, Args: append([]string{"self"}, args...)}
	}
	return &Term{Op: "call", Fn: fn, Args: args}
}

// splitFwd: the only channel in scope has the type to be provided: it is split, one half is
// consumed and the other one forwarded to. The forward's target is then a name provided by
// the multi-name forward the split created.
func (g *G) splitFwd(x Var, A *Ty, fuel int, self string) *Term {
	g.splits++
	g.feat("split-fwd")
	s1, s2 := g.fresh("s"), g.fresh("s")
	keep, other := s1, s2
	if g.coin(50) {
		keep, other = s2, s1
	}
	if A.M.Weaken() && g.coin(40) {
		// nothing between the split and the forward but a drop
		g.feat("split-drop-fwd")
		return &Term{Op: "split", X: g.pol(x.N, x.T), Y: s1, Z: s2, Cont: &Term{Op: "drop", X: other, Cont: &Term{Op: "fwd", X: g.pol(g.selfRef(self), A), Y: g.pol(keep, A)}}}
	}
	fn := g.consFunc(x.T, A.M, fuel-1)
	u := g.fresh("u")
	fw := &Term{Op: "fwd", X: g.pol(g.selfRef(self), A), Y: g.pol(keep, A)}
	if g.coin(60) {
		// the forward to the kept half is made at once by a spawned identity process (it races
		// with the forward request of the split itself); the parent consumes the other half
		g.nFn++
		id := &Func{Name: fmt.Sprintf("idf%d", g.nFn), Params: []Var{{"z", g.vary(x.T)}}, Ret: g.vary(A)}
		id.Body = &Term{Op: "fwd", X: "self", Y: "z"}
		g.P.Funcs = append(g.P.Funcs, id)
		y := g.fresh("y")
		g.feat("split-fwd-at-once")
		return &Term{Op: "split", X: g.pol(x.N, x.T), Y: s1, Z: s2, Cont: &Term{Op: "new", Y: y, Body: g.cutCall(id.Name, []string{keep}), Cont: &Term{Op: "new", Y: u, Body: g.cutCall(fn, []string{other}), Cont: &Term{Op: "wait", X: u, Cont: &Term{Op: "fwd", X: g.pol(g.selfRef(self), A), Y: g.pol(y, A)}}}}}
	}
	return &Term{Op: "split", X: g.pol(x.N, x.T), Y: s1, Z: s2, Cont: &Term{Op: "new", Y: u, Body: g.cutCall(fn, []string{other}), Cont: &Term{Op: "wait", X: u, Cont: fw}}}
}

// padCtx cuts 7..11 fresh unit channels of mode m and adds them to ctx: the process that
// captures the context then holds more than eight free names.
func (g *G) padCtx(ctx []Var, m Mode) ([]Var, func(*Term) *Term) {
	if !g.coin(g.O.Wide) {
		return ctx, func(t *Term) *Term { return t }
	}
	g.feat("wide-capture")
	n := 7 + g.R.Intn(5)
	out := append([]Var(nil), ctx...)
	var names []string
	for i := 0; i < n; i++ {
		e := g.fresh("e")
		names = append(names, e)
		out = append(out, Var{e, Unit(m)})
	}
	g.R.Shuffle(len(out), func(i, j int) { out[i], out[j] = out[j], out[i] })
	return out, func(t *Term) *Term {
		for i := len(names) - 1; i >= 0; i-- {
			t = &Term{Op: "new", Y: names[i], Ann: Unit(m), Body: &Term{Op: "close", X: "self"}, Cont: t}
		}
		return t
	}
}
